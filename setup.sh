#!/bin/sh
# Builds the framework's binaries from /repo's working tree (offline). Python code needs no build step.
set -e
cd "$(dirname "$0")"
/opt/veriftools/pyvenv/bin/python3 -m vf.build fast san
/opt/veriftools/pyvenv/bin/python3 -c "import hypothesis, jsonschema; print('python deps ok')"
