#!/usr/bin/env python3
"""tools/addregress.py REPLAY.json NAME FINDING-ID : copy a replay file into regress/<prop>/NAME.json"""
import json, os, sys
src, name, fid = sys.argv[1:4]
r = json.load(open(src))
r['finding'] = fid
d = os.path.join(os.path.dirname(os.path.dirname(os.path.abspath(__file__))), 'regress', r['property'])
os.makedirs(d, exist_ok=True)
json.dump(r, open(os.path.join(d, name + '.json'), 'w'), indent=1)
print('wrote', os.path.join(d, name + '.json'))
