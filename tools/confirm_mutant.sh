#!/bin/bash
# tools/confirm_mutant.sh SRC_DIR DEST_ID
#   SRC_DIR  directory holding patch.diff, demo.sh (+ data), meta.json written by a mutation author
#   DEST_ID  name under /verif/seeded/
# Confirms in a scratch worktree of /repo (outside /repo and /verif): the patch applies, builds, the whole ctest suite
# passes with it, demo.sh passes (exit 0) without the change and fails (exit !=0) with it.  Then stores it under seeded/.
set -u
SRC="$1"; ID="$2"
CM=/tmp/cm/$ID
WT=$CM/wt
mkdir -p $CM
if [ ! -d "$WT" ]; then
  git -C /repo worktree add -q --detach "$WT" HEAD || exit 3
fi
cd "$WT" && git checkout -q --detach "$(git -C /repo rev-parse HEAD)" && git checkout -q -- . || exit 3
cmake -G Ninja -S . -B _build -DCMAKE_BUILD_TYPE=RelWithDebInfo >/dev/null && cmake --build _build -j8 >/dev/null 2>&1 || { echo "baseline build failed"; exit 3; }
cp _build/uncrustify $CM/unc_orig
( cd "$SRC" && bash ./demo.sh $CM/unc_orig ) > $CM/demo_without.txt 2>&1; RC0=$?
git apply "$SRC/patch.diff" || { echo "patch does not apply"; exit 3; }
cmake --build _build -j8 >$CM/build.txt 2>&1 || { echo "mutant build failed"; git checkout -q -- .; exit 3; }
( cd "$SRC" && bash ./demo.sh "$WT/_build/uncrustify" ) > $CM/demo_with.txt 2>&1; RC1=$?
ctest --test-dir _build -j${CTJ:-8} --timeout 900 > $CM/ctest.txt 2>&1; RCT=$?
git checkout -q -- .
echo "$ID: demo_without rc=$RC0 demo_with rc=$RC1 ctest rc=$RCT ($(grep -E 'tests passed|tests failed' $CM/ctest.txt | tail -1))"
if [ $RC0 -eq 0 ] && [ $RC1 -ne 0 ] && [ $RCT -eq 0 ]; then
  D=/verif/seeded/$ID
  mkdir -p "$D"
  cp -r "$SRC"/. "$D"/
  python3 - "$D" "$RC0" "$RC1" "$CM" <<'PY'
import json, sys, os
d, rc0, rc1, cm = sys.argv[1:5]
p = os.path.join(d, 'meta.json')
try:
    m = json.load(open(p))
except Exception:
    m = {}
m['confirmed'] = {'by': 'tools/confirm_mutant.sh in a scratch worktree under /tmp/cm (removed afterwards)',
                  'repo_head': os.popen('git -C /repo rev-parse --short HEAD').read().strip(),
                  'demo_without_change_rc': int(rc0), 'demo_with_change_rc': int(rc1),
                  'ctest': open(cm + '/ctest.txt').read().strip().splitlines()[-3:],
                  'demo_with_change_output': open(cm + '/demo_with.txt').read()[-1500:]}
json.dump(m, open(p, 'w'), indent=1)
PY
  echo "CONFIRMED -> $D"
else
  echo "NOT CONFIRMED"
  exit 1
fi

