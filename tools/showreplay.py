#!/usr/bin/env python3
"""tools/showreplay.py FILE... : print a replay record in readable form (source, config, diff)"""
import base64, json, sys
for f in sys.argv[1:]:
    r = json.load(open(f))
    rp = r['replay']
    print('=' * 100); print(f); print('sig:', json.dumps(r.get('signature'))[:600])
    print('cfg:', rp.get('cfgd')); print('diff:', json.dumps(rp.get('diff'))[:800])
    if 'src_b64' in rp:
        s = base64.b64decode(rp['src_b64'])
        print('--- src (%d bytes)' % len(s)); print(s[:1500].decode('utf-8', 'replace'))
