#!/usr/bin/env python3
"""tools/mkreplay.py PROP LANG 'opt=val,opt=val' SRCFILE NAME FINDING-ID [RELATION] : hand-made regress entry for the family checks"""
import base64, json, os, sys
prop, lang, opts, srcf, name, fid = sys.argv[1:7]
rel = sys.argv[7] if len(sys.argv) > 7 else None
cfgd = dict(x.split('=', 1) for x in opts.split(',') if x)
src = open(srcf, 'rb').read()
rec = {'property': prop, 'finding': fid, 'signature': {'hand_made': True},
       'replay': {'lang': lang, 'cfgd': cfgd, 'cfg': ''.join('%s=%s\n' % kv for kv in cfgd.items()), 'src_b64': base64.b64encode(src).decode(),
                  'origin': {'kind': 'regress', 'file': name}, 'extra': None, 'src_preview': src[:600].decode('utf-8', 'replace')}}
if rel:
    rec['replay']['relation'] = rel
d = os.path.join(os.path.dirname(os.path.dirname(os.path.abspath(__file__))), 'regress', prop)
os.makedirs(d, exist_ok=True)
json.dump(rec, open(os.path.join(d, name + '.json'), 'w'), indent=1)
print('wrote', os.path.join(d, name + '.json'))
