#!/bin/sh
# tools/trymutant.sh PATCH ID [ID...] : apply PATCH to /repo, run the quick tier of each check, revert.
P="$1"; shift
cd /verif
git -C /repo apply "$P" || { echo "patch does not apply"; exit 3; }
for id in "$@"; do
  ./check "$id" --tier ${TIER:-quick} > /tmp/trymutant.$id.log 2>&1
  rc=$?
  echo "== $id rc=$rc  $(grep -c '^VIOLATION' /tmp/trymutant.$id.log) violation line(s)"
  grep -A1 '^VIOLATION' /tmp/trymutant.$id.log | head -${SHOW:-6}
  tail -1 /tmp/trymutant.$id.log
done
git -C /repo checkout -- .
git -C /repo status --short | grep -v _build
