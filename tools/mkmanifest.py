#!/usr/bin/env python3
"""Regenerates /verif/MANIFEST.json from the table below (and validates it against the schema when jsonschema is available)."""
import json
import os
import subprocess
import sys

ROOT = os.path.dirname(os.path.dirname(os.path.abspath(__file__)))

# id -> (category, technique, level text, level note, design ref)
CHECKS = {
    'C06': ('exploration', 'seeded truncations / mutations of corpus files, random bytes and cut generated programs x nine languages x in-range '
            'configs on the ASan+UBSan binary; validity predicate on status, signal, sanitizer report, CPU time, stdout, stderr',
            'Line-boundary truncations of corpus files (thorough: every boundary of every file), line / token / byte mutations with tails '
            'that end the file inside every kind of construct, random byte strings and generated C / C++ programs cut at a random byte are '
            'run - also under a foreign language, with default, profile and random in-range configs, with and without -q -, plus nesting 17 / 33 / 70 levels deep under all alignment options and marker regexes the library refuses, on a binary '
            'built with AddressSanitizer and UBSan: the exit status must be 0, 1 or a documented EX_* value, there must be no signal, no '
            'sanitizer report, no uncaught exception and no CPU-limit hit, and a non-zero status must come with empty stdout and (without '
            '-q) a diagnostic.',
            'Bounded time is decided by a CPU limit (8 s in the search, confirmed with 20 s); inputs are capped at 64 KiB; '
            'unknown hangs are minimised under a 3 s limit; the thorough tier adds an in-process libFuzzer target (fuzz/harness.cpp) as a '
            'coverage-guided candidate generator whose artifacts and new corpus entries are all re-judged out of process.', 'DESIGN.md §3 C06'),
    'C01': ('translation_validation', 'Hypothesis-generated C, C++, Java and Objective-C programs + compilable corpus files x single-option sweep / random / '
            'whole-family configs; differential oracle: gcc/g++ -O1 -S (javac -g:none class files) of output == of input, uncrustify exits 0',
            'Grammar-generated C programs, C++ translation units, Java classes and Objective-C root classes in random layouts and the ~330 corpus files that compile stand-alone are '
            'formatted under every whitespace / mod_ / cmt_ option singly at every enumerated or boundary value (thorough: all settings), '
            'random multi-option draws and whole-family settings, 250-1500 enumerated brace shapes (nestings of brace-less / braced if, for, while around an inner if, with and without else, also with comments between header and body) run under the brace options, 51 programs of enumerated boolean-expression shapes under the parenthesis options, and every mod_ setting runs on a fixed Java and a fixed Objective-C program; the object code gcc / g++ emits for the output must be byte-identical to '
            'that for the input (for Java: the class files javac -g:none writes) and uncrustify must accept the program.',
            'gcc/g++ without -g emit no line information; generated programs avoid layout-dependent constructs; Java and Objective-C (clang, no Foundation) are '
            'compiled for generated programs only; mod_infinite_loop values that introduce `true` are not applied to C inputs.', 'DESIGN.md §3 C01'),
    'C18': ('exploration', 'Hypothesis-generated block-structured C programs with per-line random indentation x indent options; closed-form '
            'oracle (column = 1 + depth * indent_columns, from the generator\'s depth annotation) + metamorphic invariance under re-indentation',
            'Grammar-generated C programs and line programs in C++ / Java / C (try/catch/finally chains, range-for, switch, unbraced '
            'bodies) with exact nesting-depth annotations are rendered with an independently random indentation '
            'per line; for indent_columns 1..16, indent_with_tabs 0..2, output_tab_size 1..16 and brace-placement options every line that '
            'starts with a statement\'s first token must sit in the closed-form visual column, closing braces under their opener, and a second '
            'rendering that differs only in indentation must give identical leading whitespace on those lines; with indent_brace > 0 '
            'statements of equal depth in one function must share a column; the indent_braces family (braces at body level, exemptions for functions and classes, indent_class) and goto labels under indent_label have closed forms of their own.',
            'Preprocessor groups, dangling-else shapes, bare blocks as bodies and class / namespace bodies are kept out so that the '
            'depth annotation is exact; continuation lines, comments and parenthesised text are not judged.', 'DESIGN.md §3 C18'),
    'C19': ('exploration', 'exhaustive sweep sp_ option x 4 values over a corpus slice + random joint assignments over the corpus and generated '
            'C / C++ / Java programs; oracle: hook record (rule, value, forced) vs configured value, gap measured in the output bytes',
            'Every add/remove/force spacing option is set to each of its four values over a multi-language corpus slice, and random joint '
            'assignments of all of them run over the whole corpus and generated programs; each spacing decision recorded by the hook with an '
            'option\'s name as its rule must carry that option\'s configured value (documented promotions aside) and the blanks found between '
            'the two tokens in the real output must obey it (force exactly one, add at least one, remove none unless the tokens would fuse, '
            'ignore as in the input, read from the input text).',
            'Trusts the hook record (last rule logged, value returned); options never attributed in a run are listed in the evidence; pairs '
            'next to comments and line ends are not measured; a decision recorded behind a virtual brace is measured from the real token in front of it.', 'DESIGN.md §3 C19'),
    'C05': ('exploration', 'fixed universe C/C++ corpus x curated profiles (listed exceptions) + Hypothesis-generated C programs; fixed-point '
            'oracle f(f(x)) == f(x), f^3 == f^2, --check passes; second-pass acceptance for random configs',
            'Every C / C++ corpus file under the built-in default and the curated profiles in /verif/profiles (thorough: the whole '
            'universe, quick: default + 2 seeded profiles) must be a fixed point after one pass - the second and third pass reproduce the '
            'first byte for byte and --check passes - with the 65 known unstable (profile, file) pairs listed one by one; generated C '
            'programs in calm layouts (with starred and box comments) are pushed through histories of length 3 under the profiles; for random whitespace / mod_ configs '
            'the second pass must accept the first pass\'s output.',
            'freebsd, amxmodx and sun are not claimed; kr-indent, linux-indent and linux are claimed over the corpus universe only; known '
            'root-cause families (continuation-line drift, trailing-comment gap, multi-line comment drift) are matched by the kind of line '
            'that differs.', 'DESIGN.md §3 C05'),
    'C07': ('exploration', 'generated region contents x marker kinds x insertion points in generated and corpus programs; round-trip oracle on '
            'region lines + metamorphic opacity oracle (swap region content, compare the outside)',
            'One to three disabled regions with generated content (unbalanced brackets and quotes, comment openers, tabs, trailing blanks, '
            'non-ASCII, line-final backslashes, runs of empty lines) are inserted before statement lines of generated C programs and corpus files of six '
            'languages, at file start, unterminated at EOF, or around a whole corpus file, with default / configured / regex / asm markers; '
            'the lines between the markers must come out byte-identical (whitespace-only lines emptied) and replacing the content must '
            'leave the bytes before and after the region unchanged, under whitespace, blank-line and mod_ options and disable_processing_nl_cont.',
            'Markers are located by a tag inside the marker comment; \'$\' and \'#\' are kept out of the random alphabet (known findings '
            'K4-K6, replayed from regress/); several baseline weaknesses are ledgered by class (edge blank lines, suffix dependence).',
            'DESIGN.md §3 C07'),
    'C08': ('exploration', 'every corpus file + generated programs re-encoded LF / CRLF / CR / mixed x newlines setting; metamorphic '
            'commutation laws + terminator census of the output',
            'For every corpus file (normalised to LF), generated C programs and corpus files that get a file header inserted from a file stored with LF / CRLF / CR, ten executions check: no foreign CR/LF under '
            'newlines=lf|crlf|cr, f(x, crlf|cr) equals f(x, lf) with the terminator substituted, f(conv(x), lf) equals f(x, lf) for CRLF, '
            'CR and per-line mixed conversions, auto reproduces a uniform input\'s terminator and the clear majority of a mixed one.',
            'Conversions convert every line break, also inside comments, continuations and literals; UTF-16 inputs are left to C09; the '
            'majority law is asserted only for a margin above 25 % of all breaks.', 'DESIGN.md §3 C08'),
    'C17': ('exploration', 'corpus (also with re-randomised line-leading / trailing whitespace) + generated programs x tab / end-of-file '
            'options; validity predicate on raw output lines outside comment / literal / disabled spans',
            'Outputs of all corpus files, of the same files with trailing blanks, tab-after-space and blank lines holding blanks injected, '
            'and of generated C programs in random layouts are scanned line by line: no trailing blank outside comments / literals / '
            'disabled regions, file end per nl_end_of_file(_min), spaces only in the indentation for indent_with_tabs=0, no space before '
            'a tab for 1|2, preprocessor lines judged with pp_indent_with_tabs.',
            'Exempt spans come from re-tokenising the output and, for the C family, from the independent lexer; UTF-16 outputs are '
            'skipped; indent_cmt_with_tabs is drawn only together with indent_with_tabs=2 (its documented precondition).',
            'DESIGN.md §3 C17'),
    'C20': ('exploration', 'corpus + generated programs with 0..6 blank lines injected at line boundaries x nl_max / start- / end-of-file / '
            'eat_blanks options (+ an enumerated matrix); validity predicate on runs of line breaks',
            'With blank lines injected at random line boundaries and file edges, the output may hold no run longer than nl_max between two '
            'code lines, must open and close with the number of breaks nl_start_of_file / nl_end_of_file (_min) determine (remove 0, force '
            'exactly min, add at least min) and must have no blank line after an opening / before a closing brace under eat_blanks_*; a '
            'matrix nl_max 0..6 x 4 values x minima x edge counts is enumerated on a carrier, and 352 enumerated C++ containers (namespace, class, struct, extern "C", function x first / last member kind) run under eat_blanks_* together with every blank-line count option that is not documented to override them.',
            'Blank-line count options are clamped to nl_max (the statement\'s proviso) and stay at default when eat_blanks_* is judged on corpus files and random programs (on the enumerated containers they are set); '
            'exempt spans as in C17.', 'DESIGN.md §3 C20'),
    'C02': ('exploration', 'corpus universe x seeded whitespace configs + line-level mutants + Hypothesis-generated C programs (layout engine); '
            'round-trip oracle through an independent lexer and through the hook-dumped tokenizer view',
            'Every corpus file of all nine languages under the default and seeded whitespace-only configs, a single-option sweep of the '
            'add/remove/force options, line-level mutants of corpus files and Hypothesis-generated C programs with macros, '
            'continuations, inactive branches and fusion-prone operator adjacencies in random layouts: the output must lex - by an '
            'independent C-family lexer and by uncrustify\'s own tokenizer re-run on the output - to the same code-token sequence '
            'including directive boundaries and in-preprocessor flags, and the chunk list written must carry the same non-blank '
            'characters as the tokenizer produced.',
            'The independent lexer covers C, C++, ObjC, Java; the other five languages rely on the self-tokenizer relation. Backslash + '
            'blanks + newline is judged under both the ISO and the gcc splice convention. Multi-option configurations are sampled.',
            'DESIGN.md §3 C02'),
    'C03': ('exploration', 'corpus + Hypothesis-generated programs with comments in every trivia slot + generated literal carriers; '
            'round-trip oracle on comment and literal token sequences (independent lexer and tokenizer view)',
            'Comments (kind, text modulo the continuation-line layout the statement allows) and string / character / raw-string / '
            'header-name literals (byte-exact) of the input must reappear in the same order and number in the output, for the corpus, '
            'for generated C programs with comments of eight shapes in every trivia slot, and for literal carriers in eight languages '
            'whose contents are drawn from newlines, tabs after spaces, quotes, comment openers, near-miss closing delimiters and 2- to 4-byte UTF-8, with every encoding prefix (L, u8, u, U) on raw and ordinary literals.',
            'cmt_*, sp_cmt_cpp_*, string_replace_tab_chars and header insertion stay at default as the statement requires; line '
            'terminators inside multi-line literals may follow the newlines option.', 'DESIGN.md §3 C03'),
    'C04': ('exploration', 'corpus + Hypothesis-generated C programs x random subsets of the mod_ options; metamorphic oracle: streams with '
            'the named token kinds removed are equal, per-kind count direction, bracket balance, owned lines as multisets',
            'For random non-empty subsets of the mod_ options (plus whitespace options) and a single-option sweep, the input and output '
            'token streams (independent lexer and tokenizer view) must be equal as sequences after removing the token kinds the enabled '
            'options document, each kind\'s count may change only in the documented direction, brackets stay balanced, and lines owned '
            'by the sort / de-duplicate options are compared as multisets of whole lines; enumerated brace shapes (single- and multi-line '
            'conditions, comments between header and body) run under the brace options incl. the chain and multi-line-condition guards, enumerated boolean-expression shapes under the parenthesis options and 162 enumerated conditional groups under the #else / #endif comment options.',
            'Kinds and directions per option are a table written from the option documentation; mod_sort_oc_properties is outside '
            'the domain; program shapes for non-C languages come from the corpus only.', 'DESIGN.md §3 C04'),
    'C15': ('exploration', 'exhaustive option x value enumeration + seeded random configs; round-trip / idempotence / differential oracle',
            'Every option is set singly to every enumerated, boundary and special string value (all ~3300 settings visited in both '
            'tiers), every directive form, seeded spellings (every string option x every string value class also through --set; names in lower / upper / mixed case), references and random whole configs; each dump is parsed by an '
            'independent reader, reloaded, re-dumped and compared bytewise, and probes are formatted under c and D(c).',
            'Trusts the option list/ranges reported by the binary (--universalindent) as the domain; multi-option interactions '
            'are sampled, not exhausted.', 'DESIGN.md §3 C15'),
    'C16': ('exploration', 'exhaustive option x defect-class enumeration + random/mutated config text on the ASan+UBSan binary; '
            'differential oracle (dump with vs without the bad line) + diagnostic predicate',
            'Every non-string option receives every class of bad value (below/above range, overflow, wrong type, empty value, lone prefix, foreign enum '
            'word, incompatible and dangling reference) inside a seeded good config; the dump must equal the dump without the '
            'line and stderr must name file:line and the option; malformed syntax forms, include cycles, `using` forms, nl_max '
            'conflicts for every blank-line count option and thousands of random/mutated config texts must not crash or hang.',
            'Domain (options, ranges, documentation groups) is read from the binary under test; random text is sampled; hangs '
            'are decided by a 20 s CPU limit.', 'DESIGN.md §3 C16'),
    'C09': ('exploration', 'exhaustive enumeration of all Unicode scalars x 4 encodings (round-trip identity) + metamorphic '
            'transcoding commutation + reference model of the BOM options + invalid-sequence grammar',
            'All 1,112,064 scalar values are carried through comments, literals and identifiers in UTF-8, UTF-8+BOM, UTF-16LE and '
            'UTF-16BE in both tiers (exhaustive); f(T_E(x)) == T_E(f(x)) on corpus files with injected non-ASCII; the full '
            'encoding x utf8_bom x utf8_byte x utf8_force matrix against the documented model; a grammar of invalid sequences must '
            'be refused or passed through byte-wise.',
            'Carrier programs are fixed (one declaration style); transcoding commutation is sampled over corpus files and seeded '
            'whitespace configs; C0 controls other than TAB are outside the carrier domain.', 'DESIGN.md §3 C09'),
    'C12': ('exploration', 'generated boundary perturbations of formatted files x modes; differential oracle against an ordinary '
            'reference run + directory snapshot invariant',
            'For corpus files, their formatted versions and same-size / last-byte / final-newline perturbations, in four input '
            'encodings, --check exit status and PASS/FAIL lines must agree with an independent reference run f(z)==z and leave the '
            'directory snapshot (names, sizes, mtime_ns, sha256) untouched; --if-changed must write its target iff f(z)!=z and then '
            'exactly f(z), for -o, stdout, suffix, prefix, --replace, --no-backup, -o onto the source and with the source on stdin.',
            'The reference f(z) comes from the same binary in a plain -f run, so a defect that changes both paths identically is '
            'invisible here (C10 covers mode equivalence).', 'DESIGN.md §3 C12'),
    'C10': ('exploration', 'seeded inputs x delivery modes x observer subsets x environments; differential oracle against a reference mode',
            'Each seeded (file, config) pair - a quarter with an include block that holds the file\'s own header and the name-dependent sort options - is pushed through 17 delivery/output modes (incl. the file named with ./, an absolute path, a directory part, and the long option spellings) with random observer subsets, every observer '
            'alone and all together, 10 environment variations (locale, TZ, HOME, ASLR off, repeats, large environment) and another '
            'working directory; all byte strings must equal the reference mode and the created files must be the documented set; '
            'thorough adds a valgrind sample for uninitialised reads.',
            'Sampling only: independence from address-space layout / uninitialised memory is attacked by repeats, setarch -R and '
            'valgrind, never proven.', 'DESIGN.md §3 C10'),
    'C13': ('fault_enumeration', 'exhaustive syscall-level fault enumeration (strace kill / errno injection at every file-related call of '
            'every scenario) with a file-system invariant oracle',
            'Per scenario (mode - incl. -o naming the source by another spelling - x input - incl. a zero-length source that gets content - x pre-existing state) a strace census lists every file-related system call after start-up; '
            'each one is a SIGKILL point and, for calls on the source / temporary / backup / md5 files, an error point for the errnos '
            'of its kind; after every run the path must hold the original or the complete formatted bytes, the backup must hold the '
            'original whenever the path changed, and errors that prevent the rewrite must give a non-zero status. Exhaustive over '
            'the call points of every scenario; thorough adds all errnos and error+kill pairs.',
            'System-call granularity; strace simulates a failing call by not executing it; short writes and power-loss durability '
            'are outside the domain. "Original" is read compatibly with C14: the text the run started from.', 'DESIGN.md §3 C13'),
    'C14': ('exploration', 'bounded-exhaustive history enumeration + Hypothesis-generated long histories (shrinking) against a reference '
            'model of the backup/md5 protocol and the invariant',
            'All histories up to length 5 (quick) / 6 (thorough) over user writes (two texts, a formatted text, the same bytes, the empty file) and --replace / -o-same runs with two configs are '
            'executed against the binary; file, backup and md5 file are compared with a reference model and with the directly stated '
            'invariant after every run; Hypothesis adds histories up to length 24 with runs killed at seven protocol points - a killed run counts as a run, the invariant must hold again after the next completed run - and '
            'shrinks a failure to a minimal history.',
            'Two fixed user texts and two fixed configs; equality of a user write with the text uncrustify last left is treated as '
            '"not an edit" (indistinguishable by the md5 protocol).', 'DESIGN.md §3 C14'),
    'C11': ('exploration', 'all ordered pairs of a poisoner/victim pool inside batch invocations + seeded random sequences; differential '
            'oracle batch output == separate invocation; greedy sequence shrinking',
            'A pool of ~62 synthetic state-poisoning files and seeded corpus files of every language: for four configurations and three '
            'language modes (extension, -l C, -l CPP) every ordered pair is made adjacent in a positional / -F batch, plus random '
            'configurations with random sequences of 20..120 files; every file\'s batch output must equal its separate-invocation '
            'output and the batch must exit 0; a mismatch is shrunk to the shortest predecessor chain.',
            'Interference that needs three or more specific predecessors is only sampled; configurations are four fixed ones plus '
            'seeded random draws.', 'DESIGN.md §3 C11'),
}

ALL = ['C%02d' % i for i in range(1, 21)]
NOT_YET = 'check not built yet in this revision of /verif (see DESIGN.md §6a for the order of construction)'


def main():
    hooks_commits = subprocess.run(['git', '-C', '/repo', 'log', '--format=%H %s', '--grep=^verif:'], capture_output=True,
                                   text=True).stdout.strip().splitlines()
    m = {
        'version': 1,
        'setup_cmd': './setup.sh',
        'hooks': {
            'guard': 'UNCRUSTIFY_VERIF',
            'enable': 'cmake -S /repo -B /verif/.build/<kind> -DCMAKE_CXX_FLAGS=-DUNCRUSTIFY_VERIF (vf/build.py; every check '
                      'runs `cmake --build` on /repo\'s working tree first); hooks are inert unless UNCRUSTIFY_VERIF_DUMP is set',
            'baseline_off_cmd': 'cmake -G Ninja -S /repo -B /repo/_build >/dev/null && cmake --build /repo/_build && '
                                'ctest --test-dir /repo/_build -j8 --timeout 900',
            'source_commits': [l.split()[0] for l in hooks_commits],
            'add_only': True,
        },
        'engines': [
            {'name': 'vf', 'path': 'vf/', 'serves_properties': sorted(CHECKS),
             'kind_free_text': 'python harness: seeded generators and exhaustive enumerators, Hypothesis strategies for generated '
                               'programs/histories, independent lexer, subprocess runner with rlimits, strace fault injection, '
                               'known-findings ledger, ddmin shrinking, replay files'},
        ],
        'checks': [],
        'not_applicable': [],
        'notes': 'Seed policy: the fixed universes of both tiers (which corpus file gets which configuration, which truncations / '
                 'mutants / option sweeps are taken, the pool generated cases draw their configuration from) do not move with VERIF_SEED - '
                 'they were burnt in once and every alarm became a fix: commit or a ledger entry; VERIF_SEED drives the Hypothesis-generated '
                 'programs, layouts, region contents and histories. '
                 'Single entry point ./check <id> --tier quick|thorough [--replay FILE]. known_findings.json is the committed '
                 'ledger (status known = printed as KNOWN-FINDING, status fixed = repaired by a fix: commit, suppresses nothing); '
                 'regress/<id>/ holds the replay tier.',
    }
    for pid in ALL:
        if pid in CHECKS:
            cat, tech, text, note, ref = CHECKS[pid]
            m['checks'].append({
                'property_id': pid,
                'quick_cmd': './check %s --tier quick' % pid,
                'thorough_cmd': './check %s --tier thorough' % pid,
                'evidence_file': 'evidence/%s.json' % pid,
                'replay_cmd_template': './check %s --replay {path}' % pid,
                'engine': 'vf',
                'level_claimed': {'category': cat, 'text': text, 'design_ref': ref},
                'level_note': note,
                'technique': tech,
            })
        else:
            m['not_applicable'].append({'property_id': pid, 'reason': NOT_YET})
    with open(os.path.join(ROOT, 'MANIFEST.json'), 'w') as f:
        json.dump(m, f, indent=1)
    try:
        import jsonschema
        jsonschema.validate(m, json.load(open('/root/.vp/MANIFEST.schema.json')))
        print('MANIFEST.json valid; claimed:', ' '.join(sorted(CHECKS)))
    except ImportError:
        print('MANIFEST.json written (jsonschema not available for validation)')


if __name__ == '__main__':
    main()
