#!/bin/bash
# tools/trymutant2.sh SEEDED_ID CHECK_ID [CHECK_ID...] : try a seeded change in a scratch worktree (not in /repo):
#   applies seeded/<SEEDED_ID>/patch.diff to a worktree under /tmp/mt, runs the quick tier of each check against it
#   (VERIF_REPO / VERIF_OUT), prints the verdicts.  The worktree and its build tree are removed afterwards.
SID="$1"; shift
WT=/tmp/mt/$SID
mkdir -p /tmp/mt
git -C /repo worktree add -q --detach "$WT" HEAD || exit 3
git -C "$WT" apply /verif/seeded/$SID/patch.diff || { echo "patch does not apply"; git -C /repo worktree remove --force "$WT"; exit 3; }
cd /verif
for id in "$@"; do
  VERIF_REPO=$WT VERIF_OUT=/tmp/mt/out.$SID ./check "$id" --tier ${TIER:-quick} > /tmp/mt/$SID.$id.log 2>&1
  rc=$?
  echo "== $SID vs $id: rc=$rc, $(grep -c '^VIOLATION' /tmp/mt/$SID.$id.log) violation line(s); $(tail -1 /tmp/mt/$SID.$id.log)"
  grep -A1 '^VIOLATION' /tmp/mt/$SID.$id.log | grep signature | head -${SHOW:-3} | cut -c1-420
done
git -C /repo worktree remove --force "$WT"
rm -rf /verif/.build-$(echo "$WT" | sed "s/[^A-Za-z0-9]/_/g")
