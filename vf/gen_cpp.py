"""C++ program generator: compilable translation units assembled from snippet templates.

A snippet is C++ text in which `§` marks a trivia slot (a place where the layout engine may put a comment or a line break) and
`¶` marks a statement / declaration start.  `@` in identifiers is replaced by a per-instance suffix so that snippets can be
repeated.  The text is tokenised with the independent lexer into the annotated token list vf.layout renders.
Every program compiles with `g++ -std=gnu++17 -fsyntax-only` (checked by the self-test in setup and by C01).
"""
from hypothesis import strategies as st

from . import clex

SNIPPETS = [
    # class with base list, access specifiers, ctor-init list
    """¶struct Base@ { ¶virtual ~Base@() {} ¶virtual int area() const { ¶return 0; } };
¶class Circle@ § : § public Base@ §
{
¶public:
  ¶explicit Circle@(int r) § : § r_(r) § , § twice_(2 * r) § { }
  ¶int area() const override § { ¶return 3 * r_ § * r_; }
¶private:
  ¶int r_; ¶int twice_;
};
""",
    # templates, nested angle brackets, shifts
    """¶template <typename T, § int N = 4> §
struct Arr@ { ¶T data[N]; ¶T get(int i) const § { ¶return data[i & (N - 1)]; } };
¶template <typename T> § using Vec@ = Arr@<Arr@<T, 2>, § 2>;
¶inline int shifty@(int a, int b) { ¶Vec@<int> v{}; ¶return (a >> § b) + (a << 1) + v.get(0).get(1) § + (a > b) + (a < b); }
""",
    # namespaces, enum class, switch
    """¶namespace outer@ { § ¶namespace inner@ {
¶enum class Color@ § : § unsigned char { Red, § Green = 5, Blue };
¶inline int weight@(Color@ c) § {
  ¶switch (c) § {
  ¶case Color@::Red: § ¶return 1;
  ¶case Color@::Green: { ¶return 2; }
  ¶default: ¶break;
  }
  ¶return 0;
}
} § }
""",
    # lambdas, range-for, auto, ternary, member pointers
    """¶struct P@ { ¶int x; ¶int y; };
¶inline int lam@(int n) § {
  ¶int acc = 0;
  ¶int arr[3] = {1, § 2, 3};
  ¶auto add = [&acc, § n](int v) § -> int § { ¶acc += v * n; ¶return acc; };
  ¶for (auto § & e § : arr) § { ¶add(e); }
  ¶int P@::*pm = &P@::y;
  ¶P@ p{1, § 2}; ¶P@ *pp = &p;
  ¶return acc > 3 § ? p.*pm § : pp->*pm;
}
""",
    # try / catch / throw, operators, references
    """¶struct Err@ { ¶int code; };
¶struct Num@ { ¶int v;
  ¶Num@ operator+(const Num@ § & o) const § { ¶return Num@{v + o.v}; }
  ¶bool operator<(const Num@ &o) const { ¶return v < o.v; }
  ¶Num@ § & operator++() § { ¶++v; ¶return *this; }
  ¶explicit operator bool() const § { ¶return v != 0; }
};
¶inline int tc@(int a) § {
  ¶try § { ¶if (a < 0) § throw Err@{a}; ¶Num@ n{a}; ¶++n; ¶return (n + n).v; }
  ¶catch (const Err@ § & e) § { ¶return e.code; }
  ¶catch (...) { ¶return -1; }
}
""",
    # raw strings, UDL-free literals, char literals, preprocessor inside a function
    """#define TWICE@(x) ((x) + (x))
¶inline const char *text@(int k) § {
  ¶static const char *const t[] = { "plain", § R"x(raw "quoted" \\ text)x", u8"utf8", § "a" "b" };
#if 1
  ¶if (k == '\\'') § return t[TWICE@(1) - 1];
#else
  this is ) not C++ ]
#endif
  ¶return t[k & 3];
}
""",
    # constexpr, static_assert, alignas, attributes, noexcept, default/delete
    """¶struct alignas(8) Q@ { ¶Q@() = default; ¶Q@(const Q@ &) = delete; ¶int v = 0;
  ¶[[nodiscard]] constexpr int get() const noexcept § { ¶return v; } };
¶static_assert(sizeof(Q@) >= 4, § "size");
¶constexpr int sq@(int x) § { ¶return x * x; }
¶inline int use@() { ¶Q@ q; ¶return q.get() + sq@(3); }
""",
    # do/while, goto, nested if/else chains, comma, sizeof, casts
    """¶inline long flow@(long a, long b) § {
  ¶long r = 0;
¶again:
  ¶do § { ¶r += a-- § - -b; ¶if (r > 100) § break; else if (r < -100) § { ¶r = 0; } else § ¶r++; } § while (a > 0);
  ¶if (b-- > 0) § goto again;
  ¶r += static_cast<long>(sizeof(long)) + (long)(char)a + reinterpret_cast<long>(&r) * 0;
  ¶return r, § r + 1;
}
""",
]


def tokens_of(text, suffix, junk_brackets=True):
    if not junk_brackets:
        text = text.replace('this is ) not C++ ]', 'this is not C++')
    text = text.replace('@', suffix).replace('§', ' __SLOT__ ').replace('¶', ' __STMT__ ')
    toks = []
    in_dir = False
    depth = 0
    for (k, s, line, off) in clex.lex(text, 'CPP'):
        if k == 'dir_start':
            toks.append(('dir', 'start'))
            in_dir = True
            continue
        if k == 'dir_end':
            toks.append(('dir', 'end'))
            in_dir = False
            continue
        if k == 'id' and s == '__SLOT__':
            toks.append(('slot', ''))
            continue
        if k == 'id' and s == '__STMT__':
            if not in_dir:
                toks.append(('stmt', depth, 'stmt'))
            continue
        if k.startswith('cmt'):
            continue
        if k == 'punct' and s == '{':
            depth += 1
        if k == 'punct' and s == '}':
            depth = max(0, depth - 1)
            if toks and toks[-1][0] == 'stmt':
                toks[-1] = ('stmt', depth, 'close')
        kind = {'id': 'id', 'num': 'num', 'str': 'str', 'chr': 'chr', 'punct': 'punct', 'hdr': 'hdr', 'other': 'punct'}[k]
        if in_dir and toks and toks[-1] == ('id', 'TWICE' + suffix) and s == '(':
            toks.append(('glue', ''))
        toks.append((kind, s))
    return toks


@st.composite
def cpp_program(draw, max_snippets=5, junk_brackets=True):
    n = draw(st.integers(1, max_snippets))
    toks = []
    for i in range(n):
        k = draw(st.integers(0, len(SNIPPETS) - 1))
        toks += tokens_of(SNIPPETS[k], '%d' % i, junk_brackets)
    return toks


def plain(toks):
    from . import gen_c
    return gen_c.render_plain(toks)


# ------------------------------------------------------------------------------------------------ enumerated containers (C20)
def container_shapes():
    """Small C++ translation units enumerating brace pairs (namespace, nested namespace, class, struct, extern "C", function, enum-less
    block) x the kind of the last / first member inside (function body, prototype, prototype group, class, variable, typedef, comment,
    statement) x 0 / 2 blank lines behind the opening and in front of the closing brace: the shapes on which the blank-line count
    options (nl_after_func_body ...) and eat_blanks_* meet.  Yields (name, source text)."""
    members = {'body': 'void f%d()\n{\n    g();\n}', 'proto': 'void p%d();', 'protos': 'void q%d();\nvoid r%d();', 'class': 'class D%d\n{\n    int x;\n};',
               'var': 'int v%d = 1;', 'typedef': 'typedef int T%d;', 'cmt': '// trailing comment %d', 'enum': 'enum E%d { A%d, B%d };'}
    stmts = {'call': 'g();', 'decl': 'int a%d = 1;', 'if': 'if (x)\n{\n    g();\n}', 'cmt': '/* c%d */'}
    containers = {'namespace': ('namespace N\n{', '}'), 'nested': ('namespace A\n{\nnamespace B\n{', '}\n}'), 'class': ('class C\n{\npublic:', '};'),
                  'struct': ('struct S\n{', '};'), 'externc': ('extern "C"\n{', '}'), 'ns1': ('namespace M {', '} // namespace M')}
    n = 0
    for cname, (op, cl) in containers.items():
        for first in members:
            for last in members:
                n += 1
                if first != last and (n % 3):          # every member kind in last position with itself, a third of the mixed pairs
                    continue
                for gap in (0, 2):
                    f = members[first].replace('%d', '1')
                    m = members[last].replace('%d', '2')
                    body = f + '\n\n' + 'void mid();\n\n' + m if first != last else m
                    src = 'void g();\nextern int x;\n%s\n%s%s\n%s%s\nint after;\n' % (op, '\n' * gap, body, '\n' * gap, cl)
                    yield ('container|%s|%s|%s|%d' % (cname, first, last, gap), src)
    for first in stmts:
        for last in stmts:
            for gap in (0, 2):
                body = stmts[first].replace('%d', '1') + '\ng();\n' + stmts[last].replace('%d', '2')
                src = 'void g();\nextern int x;\nvoid outer()\n{\n%s%s\n%s}\nint after;\n' % ('\n' * gap, body, '\n' * gap)
                yield ('container|function|%s|%s|%d' % (first, last, gap), src)
