"""Block-structured programs as lists of (depth, kind, text) lines - one statement (or brace line) per line, with the exact nesting
depth of every line known by construction.  Used by C18 for C++, Java and C (closed-form indentation and invariance under
re-indentation).  kind: 'stmt' statement start, 'hdr' a compound-statement header line, 'close' a line starting with '}',
'case' a case label, 'label' a goto label, 'func' function header, 'fclose' function close, 'sclose' the '}' of a switch, 'chdr' / 'cclose' the first and
last line of the class that wraps a Java program, 'pp' a block-local #define line (C, C++; not judged itself).
"""
from hypothesis import strategies as st

PP_LINES = ['#define FLAG%d 1 << 3', '#define LOG%d(v) out << v', '#define M%d (a + 1)', '#define N%d(x) ((x) * 2)', '#define E%d',
            '#define SH%d(v) v >> 2 , 1']
SIMPLE = ['a++;', 'b = a + 1;', 'a = g(a, b);', 'b--;', 'a += b * 2;', 'g(a, 3);', 'b = a ? a : b;']


class G:
    def __init__(self, draw, lang, max_depth, allow_switch=True, force_braces=False):
        self.draw, self.lang, self.max_depth, self.allow_switch = draw, lang, max_depth, allow_switch
        self.force_braces = force_braces
        self.labels = False
        self.pp = False
        self.n = 0

    def pick(self, seq):
        return seq[self.draw(st.integers(0, len(seq) - 1))]

    def simple(self, d):
        return [(d, 'stmt', self.pick(SIMPLE))]

    def body(self, d, n=None, no_block=False):
        out = []
        for _ in range(n or self.draw(st.integers(1, 3))):
            if self.labels and self.lang in ('C', 'CPP') and not no_block and self.draw(st.integers(0, 11)) == 0:
                self.n += 1
                out.append((d, 'label', 'lab%d:' % self.n))       # a goto label in front of a statement of this block
            if self.pp and self.lang in ('C', 'CPP') and self.draw(st.integers(0, 13)) == 0:
                self.n += 1                                       # a block-local macro: the line itself is not judged, what follows it is
                out.append((d, 'pp', self.pick(PP_LINES) % self.n))
            out += self.stmt(d, no_block)
        return out

    def braced_or_not(self, d, hdr):
        """hdr: header text without brace.  returns lines"""
        if not self.force_braces and self.draw(st.integers(0, 3)) == 0:
            return [(d, 'hdr', hdr)] + self.unbraced(d + 1)
        return [(d, 'hdr', hdr + ' {')] + self.body(d + 1) + [(d, 'close', '}')]

    def unbraced(self, d):
        # the single statement of an unbraced body (never a bare block, never an `if` with else: no dangling shapes)
        k = self.draw(st.integers(0, 5))
        if k <= 2 or d >= self.max_depth:
            return self.simple(d)
        if k == 3:
            return [(d, 'hdr', 'while (a < b) {')] + self.body(d + 1) + [(d, 'close', '}')]
        if k == 4 and self.lang in ('CPP', 'JAVA'):
            return self.try_chain(d)
        return [(d, 'hdr', 'for (a = 0; a < 3; a++) {')] + self.body(d + 1) + [(d, 'close', '}')]

    def try_chain(self, d):
        t = [(d, 'hdr', 'try {')] + self.body(d + 1)
        if self.lang == 'CPP':
            t += [(d, 'close', '} catch (const E &e) {')] + self.body(d + 1)
            if self.draw(st.booleans()):
                t += [(d, 'close', '} catch (...) {')] + self.body(d + 1)
        else:
            t += [(d, 'close', '} catch (RuntimeException e) {')] + self.body(d + 1)
            k = self.draw(st.integers(0, 2))
            if k >= 1:
                t += [(d, 'close', '} catch (Exception e2) {')] + self.body(d + 1)
            if k == 2:
                t += [(d, 'close', '} finally {')] + self.body(d + 1)
        return t + [(d, 'close', '}')]

    def stmt(self, d, no_block=False):
        if d >= self.max_depth:
            return self.simple(d)
        k = self.draw(st.integers(0, 13))
        if k <= 4:
            return self.simple(d)
        if k == 5:
            t = [(d, 'hdr', 'if (a > b) {')] + self.body(d + 1)
            m = self.draw(st.integers(0, 2))
            for _ in range(m if m < 2 else 1):
                t += [(d, 'close', '} else if (a == b) {')] + self.body(d + 1)
            if m:
                t += [(d, 'close', '} else {')] + self.body(d + 1)
            return t + [(d, 'close', '}')]
        if k == 6:
            return self.braced_or_not(d, 'if (a != 3)')
        if k == 7:
            return self.braced_or_not(d, 'for (a = 0; a < 10; a++)')
        if k == 8:
            return self.braced_or_not(d, 'while (b > 0)')
        if k == 9:
            return [(d, 'hdr', 'do {')] + self.body(d + 1) + [(d, 'close', '} while (a < 5);')]
        if k == 10 and self.allow_switch:
            t = [(d, 'hdr', 'switch (a) {')]
            for c in range(self.draw(st.integers(1, 3))):
                t += [(d, 'case', 'case %d:' % c)] + self.body(d + 1, self.draw(st.integers(1, 2)), no_block=True) + [(d + 1, 'stmt', 'break;')]
            t += [(d, 'case', 'default:'), (d + 1, 'stmt', 'break;')]
            return t + [(d, 'sclose', '}')]          # (the closing brace of a switch: its own kind, some brace styles treat it differently)
        if k == 11 and not no_block and not self.force_braces:       # (a block directly under a case label is laid out as the case's braces)
            return [(d, 'hdr', '{')] + self.body(d + 1) + [(d, 'close', '}')]
        if k == 12 and self.lang in ('CPP', 'JAVA'):
            return self.try_chain(d)
        if k == 13 and self.lang == 'CPP':
            return [(d, 'hdr', 'for (auto &v : vec) {')] + self.body(d + 1) + [(d, 'close', '}')]
        return self.simple(d)

    def function(self, i, d0):
        hdr = {'C': 'int f%d(int a, int b)', 'CPP': 'int f%d(int a, int b)', 'JAVA': 'int f%d(int a, int b)'}[self.lang] % i
        return [(d0, 'func', hdr + ' {')] + self.body(d0 + 1, self.draw(st.integers(2, 5))) + [(d0 + 1, 'stmt', 'return a;'), (d0, 'fclose', '}')]


@st.composite
def program(draw, lang, max_depth=6, allow_switch=True, force_braces=False, labels=False, pp=False):
    g = G(draw, lang, draw(st.integers(2, max_depth)), allow_switch, force_braces)
    g.labels = labels
    g.pp = pp
    lines = []
    if lang == 'JAVA':
        lines.append((0, 'chdr', 'class A {'))       # (indent_class is false by default: the class body is not indented)
    if lang == 'CPP':
        lines.append((0, 'stmt', 'struct E { int code; };'))
        lines.append((0, 'stmt', 'extern int g(int, int);'))
    if lang == 'C':
        lines.append((0, 'stmt', 'extern int g(int, int);'))
    for i in range(draw(st.integers(1, 3))):
        lines += g.function(i, 0)
    if lang == 'JAVA':
        lines.append((0, 'cclose', '}'))
    return lines


def render(lines, rng):
    """each line with an independently random indentation"""
    out = []
    for d, kind, text in lines:
        r = rng.random()
        if r < 0.35:
            lead = ' ' * rng.randint(0, 24)
        elif r < 0.55:
            lead = '\t' * rng.randint(0, 5)
        elif r < 0.65:
            lead = ' ' * rng.randint(1, 3) + '\t' + ' ' * rng.randint(0, 3)
        elif r < 0.75:
            lead = ''
        else:
            lead = '    ' * d
        out.append(lead + text)
    return '\n'.join(out) + '\n'
