#!/usr/bin/env python3
"""Prototype independent lexer for the C family (C, C++, ObjC, Java).

Produces a list of tokens (kind, text, line) where kind in
  id num str chr punct cmt_c cmt_cpp hdr dir_start dir_end other
Whitespace and line splices are not tokens.  Directives are bracketed by
dir_start/dir_end pseudo tokens so that "what is inside a directive line"
is part of the stream.
"""
import re, sys

PUNCT_C = [
    '%:%:', '...', '<<=', '>>=', '<=>', '->*',
    '##', '->', '++', '--', '<<', '>>', '<=', '>=', '==', '!=', '&&', '||',
    '*=', '/=', '%=', '+=', '-=', '&=', '^=', '|=', '::', '.*', '<:', ':>', '<%', '%>', '%:',
]
PUNCT_JAVA = ['>>>=', '>>>', '...', '<<=', '>>=', '->', '::', '++', '--', '<<', '>>', '<=', '>=', '==', '!=',
              '&&', '||', '*=', '/=', '%=', '+=', '-=', '&=', '^=', '|=']

IDSTART = re.compile(r'[A-Za-z_$\u0080-\U0010ffff]')
IDCONT = re.compile(r'[A-Za-z0-9_$\u0080-\U0010ffff]')


GCC_SPLICE = False


class LexError(Exception):
    pass


def lex(text, lang='C', gcc_splice=None):
    if isinstance(text, bytes):
        text = text.decode('utf-8', 'surrogateescape')
    """text: str (decoded). returns list of (kind, text, line, start_offset)."""
    java = lang == 'JAVA'
    gcc = GCC_SPLICE if gcc_splice is None else gcc_splice
    cpp = lang in ('CPP', 'OC+', 'C', 'OC')  # raw strings & digit separators accepted for all C-likes
    punct = PUNCT_JAVA if java else PUNCT_C
    toks = []
    n = len(text)
    i = 0
    line = 1
    at_bol = True          # only whitespace seen since beginning of logical line
    in_dir = False
    dir_name = None
    dir_ntok = 0

    def splice_at(j):
        # returns length of a backslash-newline at j (allowing trailing blanks as gcc does), else 0
        if j < n and text[j] == '\\':
            k = j + 1
            # ISO C/C++: the backslash must be immediately followed by the newline.  (gcc and clang also accept blanks in between,
            # with a warning; uncrustify follows the standard, and so does this lexer - GCC_SPLICE switches the extension on)
            while gcc and k < n and text[k] in ' \t':
                k += 1
            if k < n and text[k] == '\r':
                k += 1
                if k < n and text[k] == '\n':
                    k += 1
                return k - j
            if k < n and text[k] == '\n':
                return k + 1 - j
        return 0

    def end_dir():
        nonlocal in_dir, dir_name, dir_ntok
        if in_dir:
            toks.append(('dir_end', '', line, i))
            in_dir = False
            dir_name = None
            dir_ntok = 0

    while i < n:
        c = text[i]
        # newline
        if c == '\n' or c == '\r':
            if c == '\r' and i + 1 < n and text[i + 1] == '\n':
                i += 1
            i += 1
            line += 1
            end_dir()
            at_bol = True
            continue
        if c in ' \t\f\v':
            i += 1
            continue
        if c == '\\' and not java:
            s = splice_at(i)
            if s:
                i += s
                line += 1
                continue
        # comments
        if c == '/' and i + 1 < n and text[i + 1] == '/':
            j = i + 2
            while j < n:
                if text[j] == '\\' and not java:
                    s = splice_at(j)
                    if s:
                        j += s
                        continue
                if text[j] in '\r\n':
                    break
                j += 1
            toks.append(('cmt_cpp', text[i:j], line, i))
            line += text[i:j].count('\n') + len(re.findall(r'\r(?!\n)', text[i:j]))
            i = j
            continue
        if c == '/' and i + 1 < n and text[i + 1] == '*':
            j = text.find('*/', i + 2)
            if j < 0:
                raise LexError('unterminated comment at line %d' % line)
            j += 2
            toks.append(('cmt_c', text[i:j], line, i))
            line += text[i:j].count('\n') + len(re.findall(r'\r(?!\n)', text[i:j]))
            i = j
            continue
        # directive start
        if c == '#' and at_bol and not java and not in_dir:
            toks.append(('dir_start', '', line, i))
            in_dir = True
            dir_ntok = 0
            dir_name = None
            toks.append(('punct', '#', line, i))
            at_bol = False
            i += 1
            continue
        at_bol = False
        # free-text directives: compare raw text modulo blanks
        if in_dir and dir_name in ('error', 'warning', 'pragma', 'ident', 'sccs', 'region', 'endregion', 'import_text') and dir_ntok >= 1:
            j = i
            while j < n and text[j] not in '\r\n':
                if text[j] == '\\':
                    s = splice_at(j)
                    if s:
                        break
                if text[j] == '/' and j + 1 < n and text[j + 1] in '/*':
                    break
                j += 1
            raw = ''.join(text[i:j].split())
            if raw:
                toks.append(('other', raw, line, i))
            if j == i:
                # a lone backslash that is not a splice
                toks.append(('other', text[i], line, i))
                j = i + 1
            i = j
            continue
        # header name
        if in_dir and dir_name in ('include', 'import', 'include_next') and dir_ntok == 1 and c == '<':
            j = i + 1
            while j < n and text[j] not in '>\r\n':
                j += 1
            if j < n and text[j] == '>':
                toks.append(('hdr', text[i:j + 1], line, i))
                dir_ntok += 1
                i = j + 1
                continue
        # string / char literal with optional prefix
        m = re.compile(r'(u8|u|U|L)?(R)?"').match(text, i) if not java else re.compile(r'()()"').match(text, i)
        if m and (m.group(1) or m.group(2) or c == '"'):
            if m.group(2) and cpp:
                # raw string
                k = m.end()
                d = text.find('(', k)
                if d < 0 or d - k > 16:
                    raise LexError('bad raw string at line %d' % line)
                delim = text[k:d]
                endm = ')' + delim + '"'
                e = text.find(endm, d + 1)
                if e < 0:
                    raise LexError('unterminated raw string at line %d' % line)
                e += len(endm)
                # ud-suffix
                if e < n and text[e] == '_':
                    while e < n and IDCONT.match(text[e]):
                        e += 1
                toks.append(('str', text[i:e], line, i))
                line += text[i:e].count('\n') + len(re.findall(r'\r(?!\n)', text[i:e]))
                i = e
                if in_dir:
                    dir_ntok += 1
                continue
            if java and text.startswith('"""', i):
                e = text.find('"""', i + 3)
                if e < 0:
                    raise LexError('unterminated text block')
                e += 3
                toks.append(('str', text[i:e], line, i))
                line += text[i:e].count('\n')
                i = e
                continue
            j = m.end()
            ok = False
            while j < n:
                ch = text[j]
                if ch == '\\':
                    s = splice_at(j) if not java else 0
                    if s:
                        j += s
                        continue
                    j += 2
                    continue
                if ch == '"':
                    ok = True
                    j += 1
                    break
                if ch in '\r\n':
                    break
                j += 1
            if ok:
                if j < n and text[j] == '_' and not java:
                    while j < n and IDCONT.match(text[j]):
                        j += 1
                toks.append(('str', text[i:j], line, i))
                line += text[i:j].count('\n')
                i = j
                if in_dir:
                    dir_ntok += 1
                continue
            # unterminated: the quote is a lone token
            if m.group(1) or m.group(2):
                pass  # fall through to identifier lexing of the prefix
            else:
                toks.append(('other', '"', line, i))
                i += 1
                continue
        m = re.compile(r"(u8|u|U|L)?'").match(text, i) if not java else re.compile(r"()'").match(text, i)
        if m and (m.group(1) or c == "'"):
            j = m.end()
            ok = False
            while j < n:
                ch = text[j]
                if ch == '\\':
                    j += 2
                    continue
                if ch == "'":
                    ok = j > m.end()
                    j += 1
                    break
                if ch in '\r\n':
                    break
                j += 1
            if ok:
                toks.append(('chr', text[i:j], line, i))
                i = j
                if in_dir:
                    dir_ntok += 1
                continue
            if not m.group(1):
                toks.append(('other', "'", line, i))
                i += 1
                continue
        # pp-number
        if c.isdigit() or (c == '.' and i + 1 < n and text[i + 1].isdigit()):
            j = i + 1
            while j < n:
                ch = text[j]
                if ch in 'eEpP' and j + 1 < n and text[j + 1] in '+-':
                    j += 2
                    continue
                if ch == "'" and j + 1 < n and (text[j + 1].isalnum() or text[j + 1] == '_') and not java:
                    j += 2
                    continue
                if ch == '.' or IDCONT.match(ch):
                    j += 1
                    continue
                break
            toks.append(('num', text[i:j], line, i))
            i = j
            if in_dir:
                dir_ntok += 1
            continue
        # identifier (incl. ObjC/Java @word)
        if IDSTART.match(c) or (c == '@' and i + 1 < n and IDSTART.match(text[i + 1])) or (c == '\\' and i + 1 < n and text[i + 1] in 'uU'):
            j = i + 1
            while j < n and (IDCONT.match(text[j]) or (text[j] == '\\' and j + 1 < n and text[j + 1] in 'uU')):
                j += 1
            w = text[i:j]
            toks.append(('id', w, line, i))
            if in_dir:
                if dir_ntok == 0:
                    dir_name = w
                dir_ntok += 1
            i = j
            continue
        # punctuators
        for p in punct:
            if text.startswith(p, i):
                # C++11 [lex.pptoken]: '<::' not followed by ':' or '>' is '<' '::'
                if p == '<:' and text.startswith('<::', i) and not (text.startswith('<:::', i) or text.startswith('<::>', i)):
                    continue
                toks.append(('punct', p, line, i))
                i += len(p)
                break
        else:
            toks.append(('punct' if c in '{}[]()<>;:,.?~!%^&*-+=|/#@' else 'other', c, line, i))
            i += 1
        if in_dir:
            dir_ntok += 1
    end_dir()
    return toks


def norm_comment(t):
    """Comment text modulo layout of continuation lines."""
    kind, s = t[0], t[1]
    lines = re.split(r'\r\n|\r|\n', s)
    out = []
    for k, l in enumerate(lines):
        l = l.strip(' \t')
        if kind == 'cmt_cpp' and k > 0 and l.startswith('//'):
            l = l[2:].lstrip(' \t')
        if kind == 'cmt_c' and k > 0 and l.startswith('*') and not l.startswith('*/'):
            l = l[1:].lstrip(' \t')
        out.append(l)
    return (kind, '\n'.join(out))


def code_stream(toks):
    """tokens without comments.  Lexical equivalences normalised: '>>'/'>>>' -> '>' pieces (the hook view B decides where a
    split is legitimate); adjacent 'other' (free-text directive) pieces are joined; `operator ""_x` == `operator "" _x`
    ([over.literal] allows both spellings of a literal-operator-id)."""
    out = []
    for (k, s, l, _o) in toks:
        if k.startswith('cmt'):
            continue
        if k == 'punct' and s in ('>>', '>>>'):
            out.extend([('punct', '>')] * len(s))
        elif k == 'other' and out and out[-1][0] == 'other':
            out[-1] = ('other', out[-1][1] + s)
        elif k == 'str' and s.startswith('""_') and out and out[-1] == ('id', 'operator'):
            out.append(('str', '""'))
            out.append(('id', s[2:]))
        else:
            out.append((k, s))
    return out


def comment_stream(toks):
    return [norm_comment(t) for t in toks if t[0].startswith('cmt')]


if __name__ == '__main__':
    data = open(sys.argv[1], 'rb').read().decode('utf-8', 'surrogateescape')
    for t in lex(data, sys.argv[2] if len(sys.argv) > 2 else 'C'):
        print(t)
