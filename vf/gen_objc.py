"""Objective-C program generator (snippet templates with trivia slots): root classes without Foundation, compiled by
`clang -x objective-c -fblocks -fobjc-exceptions -S`.  `§` trivia slot, `¶` statement / member start, `@@` per-instance suffix
(a single '@' is Objective-C syntax)."""
from hypothesis import strategies as st

from . import clex

SNIPPETS = [
    """¶__attribute__((objc_root_class))
¶@interface Root@@ § {
  ¶int v_;
  ¶int p_;
}
¶+ (id)make;
¶- (int)twice:(int)x § with:(int)y;
¶- (void)setV:(int)v;
¶@property (nonatomic, § assign) int p;
¶@end
¶@implementation Root@@
¶@synthesize p = p_;
¶+ (id)make § { ¶return (id)0; }
¶- (int)twice:(int)x with:(int)y § {
  ¶int (^blk)(int) = ^(int k) § { ¶return k * 2 + v_; };
  ¶int r = blk(x) + [self p];
  ¶for (int i = 0; i < y; i++) § { ¶r += [self twice:i § with:0]; }
  ¶@try § { ¶r++; } @catch (id e) § { ¶r--; } @finally { ¶r += 2; }
  ¶@synchronized(self) § { ¶v_ = r; }
  ¶SEL s = @selector(twice:with:);
  ¶return s ? r § : -r;
}
¶- (void)setV:(int)v { ¶v_ = v; ¶self.p = v; }
¶@end
¶int use@@(void) § {
  ¶Root@@ *o = [Root@@ make];
  ¶[o setV:3];
  ¶return [o twice:1 with:2] + (o ? 1 : 0);
}
""",
    """¶@protocol Shape@@
¶- (int)area;
¶@optional
¶- (int)sides;
¶@end
¶__attribute__((objc_root_class))
¶@interface Box@@ <Shape@@> § {
¶@public
  ¶int w, h;
}
¶- (int)area;
¶- (int)scale:(int)k § by:(int (^)(int, int))f;
¶@end
¶@implementation Box@@
¶- (int)area § { ¶return w * h; }
¶- (int)scale:(int)k by:(int (^)(int, int))f § { ¶if (!f) § return k; ¶return f(k, § [self area]); }
¶@end
¶static int sum@@(Box@@ *b) § {
  ¶int t = b->w + (b->h >> 1);
  ¶t += [b scale:2 by:^(int a, int c) § { ¶return a * c; }];
  ¶switch (t & 3) § { ¶case 0: ¶t++; ¶break; ¶default: ¶t--; }
  ¶return t;
}
""",
]


def tokens_of(text):
    text = text.replace('§', ' __SLOT__ ').replace('¶', ' __STMT__ ')
    toks = []
    depth = 0
    for (k, s, line, off) in clex.lex(text, 'OC'):
        if k in ('dir_start', 'dir_end'):
            continue
        if k == 'id' and s == '__SLOT__':
            toks.append(('slot', ''))
            continue
        if k == 'id' and s == '__STMT__':
            toks.append(('stmt', depth, 'stmt'))
            continue
        if k.startswith('cmt'):
            continue
        if k == 'punct' and s == '{':
            depth += 1
        if k == 'punct' and s == '}':
            depth = max(0, depth - 1)
        kind = {'id': 'id', 'num': 'num', 'str': 'str', 'chr': 'chr', 'punct': 'punct', 'other': 'punct', 'hdr': 'hdr'}[k]
        toks.append((kind, s))
    return toks


@st.composite
def objc_program(draw, max_snippets=3):
    toks = []
    for i in range(draw(st.integers(1, max_snippets))):
        k = draw(st.integers(0, len(SNIPPETS) - 1))
        toks += tokens_of(SNIPPETS[k].replace('@@', '%d' % i))
    return toks
