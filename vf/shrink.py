"""ddmin-style shrinking for config option sets, source lines and sequences.  `fails(x)` must be deterministic."""


def ddmin(items, fails, max_tests=400):
    """smallest sublist (1-minimal within the test budget) of `items` for which fails(sublist) is still true"""
    items = list(items)
    tests = 0
    n = 2
    while len(items) >= 2 and tests < max_tests:
        k = max(1, len(items) // n)
        subsets = [items[i:i + k] for i in range(0, len(items), k)]
        reduced = False
        for s in subsets:                      # try a subset alone
            tests += 1
            if fails(s):
                items, n, reduced = s, 2, True
                break
            if tests >= max_tests:
                break
        if not reduced:
            for i in range(len(subsets)):      # try a complement
                comp = [x for j, s in enumerate(subsets) if j != i for x in s]
                tests += 1
                if comp and fails(comp):
                    items, n, reduced = comp, max(n - 1, 2), True
                    break
                if tests >= max_tests:
                    break
        if not reduced:
            if n >= len(items):
                break
            n = min(len(items), n * 2)
    if len(items) == 1 and tests < max_tests and fails([]):
        return []
    return items


def min_cfg(cfgd, fails, max_tests=300):
    """cfgd: dict option->value.  fails(dict) -> bool.  returns the minimal sub-dict that still fails"""
    if not cfgd:
        return {}
    keys = ddmin(sorted(cfgd), lambda ks: fails({k: cfgd[k] for k in ks}), max_tests)
    return {k: cfgd[k] for k in keys}


def min_lines(src, fails, max_tests=300):
    """src: bytes; remove lines while fails(bytes) stays true"""
    lines = src.split(b'\n')
    if len(lines) > 3000:
        return src
    keep = ddmin(list(range(len(lines))), lambda ix: fails(b'\n'.join(lines[i] for i in ix)), max_tests)
    return b'\n'.join(lines[i] for i in keep)
