"""Layout engine: renders an annotated token list (vf.gen_c) with randomised gaps, indentation, blank lines,
trailing blanks and comments.  All randomness comes from the `rng` handed in (random.Random seeded from a drawn integer).

Soundness: two tokens are written without a separator only if the independent lexer re-lexes their concatenation into
exactly those two tokens; no newline is placed inside a directive without a continuation; a // comment is always followed
by a line break.
"""
import functools

from . import clex

DEFAULT_STYLE = dict(p_empty=0.25, p_tab=0.1, p_multi=0.2, p_cmt=0.06, p_nl_slot=0.15, indent='random', blank=2, p_trail=0.1,
                     p_join=0.08, eol='\n', p_cont=0.5, nonascii=True, p_brace_nl=0.5, bs_cmt=0.0, multi_cmt=True, cmt_tab=True, unstarred_cmt=True, box_cmt=0.0, p_bs_trail=0.0)

REAL = ('id', 'kw', 'num', 'str', 'chr', 'punct', 'hdr')


@functools.lru_cache(maxsize=200000)
def needs_sep(a, b, lang='C'):
    try:
        t = clex.lex(a + b, lang)
    except clex.LexError:
        return True
    t = [x for x in t if x[0] not in ('dir_start', 'dir_end')]
    return not (len(t) == 2 and t[0][1] == a and t[1][1] == b)


class Renderer:
    def __init__(self, rng, lang='C', style=None, indent_rng=None):
        self.rng = rng
        self.indent_rng = indent_rng or rng      # a separate stream lets two renderings differ in indentation only
        self.lang = lang
        self.st = dict(DEFAULT_STYLE)
        if style:
            self.st.update(style)
        self.ncmt = 0
        self.comments = []       # texts of the comments inserted, in order
        self.stmt_lines = []     # (line number (1-based), depth, kind) of statement starts that begin a line

    def gap(self, force=False):
        r = self.rng.random()
        if r < self.st['p_tab']:
            return '\t' * self.rng.randint(1, 2)
        if r < self.st['p_tab'] + self.st['p_multi']:
            return ' ' * self.rng.randint(2, 5)
        if self.st['p_tab'] > 0 and r < self.st['p_tab'] + self.st['p_multi'] + 0.04:
            return ' \t'
        return ' '

    def comment(self, in_dir, at_dir_end=False, own_line=False):
        self.ncmt += 1
        n = self.ncmt
        k = self.rng.randrange(8)
        word = self.rng.choice(['note', 'x*y', 'a/b', 'TODO:', 'see "q"', "it's", 'if (x) {', '#define', 'é', '\tt', 'a  b', '*/'[:1], '//', '\U0001F600'])
        if not self.st['nonascii'] and word in ('é', '\U0001F600'):
            word = 'e'
        if not self.st['cmt_tab'] and '\t' in word:
            word = 't'
        if not self.st['multi_cmt'] and k in (3, 4, 6):
            k = 0
        if k == 4 and not self.st['unstarred_cmt']:
            k = 3
        if not in_dir and self.st['box_cmt'] and self.rng.random() < self.st['box_cmt']:
            # a box comment; its first line may carry trailing blanks (they are inside the comment)
            w = self.rng.choice([8, 12, 20])
            c = '/%s%s\n * box c%d %s\n %s/' % ('*' * w, self.rng.choice(['', '', ' ', '  ', '\t']), n, word.replace('*/'[:1], 'x'), '*' * w)
            self.comments.append(c)
            return c
        if k <= 2 or (in_dir and not at_dir_end):
            c = '/* c%d %s */' % (n, word)
        elif k == 3 and not in_dir:
            c = '/* c%d %s\n * second line\n */' % (n, word)
        elif k == 4 and not in_dir:
            c = '/* c%d %s\n   unstarred continuation\n\t  tabbed */' % (n, word)
        elif k == 5:
            c = '/*c%d*/' % n
        elif k == 6 and not in_dir:
            c = '/** c%d doc\n  * %s\n  */' % (n, word)
        else:
            if in_dir and not at_dir_end:
                c = '/* c%d */' % n
            else:
                c = '// c%d %s' % (n, word.replace('*/'[:1], 'star'))
                if not in_dir and self.rng.random() < self.st['bs_cmt']:
                    # a Windows-path style comment: backslash followed by trailing blank(s).  (gcc splices here, the C standard
                    # and uncrustify do not; the independent lexer follows gcc on input and output alike)
                    c += ' C:\\dir\\' + self.rng.choice([' ', '  ', '\t', ' \t '])
        self.comments.append(c)
        return c

    def render(self, toks):
        rng, stl = self.rng, self.st
        eol = stl['eol']
        out = []          # list of line strings (without terminator)
        cur = ''
        in_dir = False
        dir_ntok = 0
        glue = False
        prev = None       # previous real token text on the current logical position
        pending_nl = False
        depth_hint = 0

        def newline(cont=False):
            nonlocal cur, prev
            line = cur
            if cont:
                line += ('' if line.endswith((' ', '\t')) or rng.random() < 0.3 else ' ') + '\\'
                if stl['p_bs_trail'] and rng.random() < stl['p_bs_trail']:
                    line += rng.choice([' ', '  ', '\t', ' \t'])      # blanks between the backslash and the line end (still a continuation for gcc)
            elif rng.random() < stl['p_trail']:
                line += rng.choice([' ', '  ', '\t', ' \t'])
            out.append(line)
            cur = ''
            prev = None

        irng = self.indent_rng

        def indent(depth):
            m = stl['indent']
            if m == 'none':
                return ''
            if m == 'canon':
                return '    ' * depth
            r = irng.random()
            if r < 0.3:
                return ' ' * irng.randint(0, 20)
            if r < 0.5:
                return '\t' * irng.randint(0, 4)
            if r < 0.6:
                return ' ' * irng.randint(1, 3) + '\t' + ' ' * irng.randint(0, 3)
            return '    ' * depth

        for idx, t in enumerate(toks):
            k = t[0]
            if k == 'glue':
                glue = True
                continue
            if k == 'stmt':
                depth_hint = t[1]
                kind = t[2] if len(t) > 2 else 'stmt'
                if in_dir:
                    continue
                # decide whether this statement starts a new line
                if cur.strip() == '':
                    cur = indent(depth_hint)
                elif kind in ('close', 'open', 'else', 'dowhile') and rng.random() < 1 - stl['p_brace_nl']:
                    pass
                elif rng.random() < stl['p_join'] and not pending_nl:
                    pass
                else:
                    newline()
                    for _ in range(rng.randint(0, stl['blank']) if rng.random() < 0.3 else 0):
                        out.append(rng.choice(['', '', ' ', '\t']) if stl['p_trail'] > 0 else '')
                    if rng.random() < stl['p_cmt'] * 0.7:
                        cur = indent(depth_hint) + self.comment(False, own_line=True)
                        newline()
                    cur = indent(depth_hint)
                pending_nl = False
                if cur.strip() == '':
                    self.stmt_lines.append((sum(o.count('\n') + 1 for o in out) + 1, depth_hint, kind))
                continue
            if k == 'dir':
                if t[1] == 'start':
                    if cur.strip() != '':
                        newline()
                    cur = rng.choice(['', '', '', ' ', '  ', '\t']) if stl['indent'] != 'none' else ''
                    in_dir = True
                    dir_ntok = 0
                    prev = None
                else:
                    if rng.random() < stl['p_cmt']:
                        cur += self.gap() + self.comment(True, at_dir_end=True)
                    newline()
                    in_dir = False
                    pending_nl = False
                continue
            if k == 'cont':
                if in_dir and rng.random() < stl['p_cont']:
                    newline(cont=True)
                    cur = indent(rng.randint(0, 3))
                continue
            if k == 'nl':
                pending_nl = True
                continue
            if k == 'slot':
                if in_dir:
                    if rng.random() < stl['p_cmt'] * 0.5:
                        cur += self.gap() + self.comment(True)
                        prev = None
                    continue
                if rng.random() < stl['p_cmt']:
                    c = self.comment(False)
                    cur += (self.gap() if cur.strip() else '') + c
                    prev = None
                    if c.startswith('//'):
                        newline()
                        cur = indent(depth_hint + 1)
                        continue
                if rng.random() < stl['p_nl_slot'] and cur.strip():
                    newline()
                    cur = indent(depth_hint + rng.randint(0, 2))
                continue
            if k not in REAL:
                continue
            text = t[1]
            if pending_nl and not in_dir:
                if cur.strip():
                    newline()
                    cur = indent(depth_hint)
                pending_nl = False
            if glue:
                cur += text
                glue = False
            elif cur.strip() == '' or prev is None and cur.endswith((' ', '\t')):
                cur += text
            elif prev is None:
                cur += self.gap() + text
            else:
                must = needs_sep(prev, text, self.lang) or (in_dir and dir_ntok <= 3)
                if not must and rng.random() < stl['p_empty']:
                    cur += text
                else:
                    cur += self.gap() + text
            prev = text
            if in_dir:
                dir_ntok += 1
        if cur.strip() != '' or cur:
            out.append(cur)
            cur = ''
        text = eol.join(out)
        if rng.random() < 0.9:
            text += eol
        return text


def render(toks, rng, lang='C', style=None, indent_rng=None):
    r = Renderer(rng, lang, style, indent_rng)
    return r.render(toks), r
