"""The fixed input universe: /repo/tests/input/** with the language the repository's own runner uses."""
import functools
import os
import re

from . import build

DIR_LANG = {'c': 'C', 'cpp': 'CPP', 'cs': 'CS', 'd': 'D', 'java': 'JAVA', 'oc': 'OC', 'pawn': 'PAWN', 'vala': 'VALA',
            'ecma': 'ECMA', 'sql': 'C'}
CFAMILY = ('C', 'CPP', 'OC', 'OC+', 'JAVA')


def input_root():
    return os.path.join(build.REPO, 'tests', 'input')


@functools.lru_cache(maxsize=1)
def test_lang_overrides():
    """input path -> lang from the 4th column of the *.test files"""
    ov = {}
    td = os.path.join(build.REPO, 'tests')
    for n in sorted(os.listdir(td)):
        if not n.endswith('.test'):
            continue
        for line in open(os.path.join(td, n), errors='replace'):
            if line.startswith('#'):
                continue
            f = line.split()
            if len(f) >= 4 and re.match(r'^[A-Z+\-a-z]+$', f[3]) and '/' in f[2]:
                ov[f[2]] = f[3]
    return ov


@functools.lru_cache(maxsize=1)
def files():
    """sorted list of (relpath, lang)"""
    root = input_root()
    out = []
    ov = test_lang_overrides()
    for d in sorted(os.listdir(root)):
        lang = DIR_LANG.get(d)
        if not lang:
            continue
        for dp, dn, fn in os.walk(os.path.join(root, d)):
            dn.sort()
            for f in sorted(fn):
                rel = os.path.relpath(os.path.join(dp, f), root)
                l = ov.get(rel, lang)
                if f.endswith('.mm'):
                    l = 'OC+'
                if l == 'CS+':
                    l = 'CS'
                out.append((rel, l))
    return out


def read(rel):
    with open(os.path.join(input_root(), rel), 'rb') as f:
        return f.read()


@functools.lru_cache(maxsize=1)
def test_triples():
    """(config relpath under tests/config, input relpath, lang) from the *.test files (as generators of realistic configs)"""
    td = os.path.join(build.REPO, 'tests')
    out = []
    for n in sorted(os.listdir(td)):
        if not n.endswith('.test') or n == 'staging.test':
            continue
        for line in open(os.path.join(td, n), errors='replace'):
            if line.startswith('#'):
                continue
            f = line.split()
            if len(f) >= 3 and '/' in f[2]:
                d = f[2].split('/')[0]
                lang = f[3] if len(f) >= 4 else DIR_LANG.get(d, 'C')
                out.append((f[1], f[2], lang))
    return out


def select(rng, n, langs=None, maxsize=None):
    fs = [x for x in files() if (langs is None or x[1] in langs)]
    if maxsize:
        fs = [x for x in fs if os.path.getsize(os.path.join(input_root(), x[0])) <= maxsize]
    if n >= len(fs):
        return fs
    return rng.sample(fs, n)
