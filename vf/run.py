"""Subprocess runner for the binary under test: clean environment, rlimits, status/signal/CPU time."""
import os
import resource
import shutil
import signal
import subprocess
import tempfile
import time

from . import build

CPU_LIMIT = 20          # seconds of CPU; the C06 bound
AS_LIMIT = 4 << 30      # address space for the non-sanitizer binary

_scratch_root = None


def scratch_root():
    global _scratch_root
    if _scratch_root is None or not os.path.isdir(_scratch_root):
        base = '/dev/shm' if os.path.isdir('/dev/shm') and os.access('/dev/shm', os.W_OK) else os.path.join(build.ROOT, '.work')
        os.makedirs(base, exist_ok=True)
        _scratch_root = tempfile.mkdtemp(prefix='vf-%d-' % os.getpid(), dir=base)
        os.makedirs(os.path.join(_scratch_root, 'home'), exist_ok=True)
    return _scratch_root


def cleanup():
    global _scratch_root
    if _scratch_root and os.path.isdir(_scratch_root):
        shutil.rmtree(_scratch_root, ignore_errors=True)
    _scratch_root = None


class TempDir:
    """a fresh directory under the per-process scratch root, removed on exit"""

    def __enter__(self):
        self.path = tempfile.mkdtemp(dir=scratch_root())
        return self.path

    def __exit__(self, *a):
        shutil.rmtree(self.path, ignore_errors=True)


class Result:
    __slots__ = ('status', 'signal', 'out', 'err', 'cpu', 'timeout', 'argv')

    def __init__(self, status, sig, out, err, cpu, timeout, argv):
        self.status, self.signal, self.out, self.err, self.cpu, self.timeout, self.argv = status, sig, out, err, cpu, timeout, argv

    @property
    def ok(self):
        return self.status == 0 and self.signal is None and not self.timeout

    def brief(self):
        return {'status': self.status, 'signal': self.signal, 'timeout': self.timeout, 'cpu': round(self.cpu, 3),
                'stderr': self.err[-600:].decode('utf-8', 'replace')}


def base_env(extra=None):
    env = {'PATH': '/usr/bin:/bin', 'HOME': os.path.join(scratch_root(), 'home'), 'LC_ALL': 'C',
           'ASAN_OPTIONS': 'detect_leaks=0:exitcode=99:abort_on_error=0:allocator_may_return_null=1',
           'UBSAN_OPTIONS': 'halt_on_error=1:exitcode=98:print_stacktrace=1'}
    if extra:
        env.update(extra)
    return env


def _limits(cpu, asan):
    def f():
        resource.setrlimit(resource.RLIMIT_CPU, (cpu, cpu + 1))
        if not asan:
            resource.setrlimit(resource.RLIMIT_AS, (AS_LIMIT, AS_LIMIT))
        resource.setrlimit(resource.RLIMIT_CORE, (0, 0))
        resource.setrlimit(resource.RLIMIT_FSIZE, (1 << 30, 1 << 30))
    return f


def run(argv, stdin=None, kind='fast', env=None, cwd=None, cpu=CPU_LIMIT, prefix=None):
    """run the binary under test.  argv excludes the program name.  prefix = wrapper argv (strace, setarch)"""
    exe = build.binary(kind)
    full = (prefix or []) + [exe] + list(argv)
    e = base_env(env)
    t0 = time.time()
    r0 = resource.getrusage(resource.RUSAGE_CHILDREN)
    timeout = False
    p = subprocess.Popen(full, stdin=subprocess.PIPE if stdin is not None else subprocess.DEVNULL,
                         stdout=subprocess.PIPE, stderr=subprocess.PIPE, env=e, cwd=cwd,
                         preexec_fn=_limits(cpu, kind != 'fast'))
    try:
        out, err = p.communicate(stdin, timeout=cpu * 6 + 10)
    except subprocess.TimeoutExpired:
        p.kill()
        out, err = p.communicate()
        timeout = True
    r1 = resource.getrusage(resource.RUSAGE_CHILDREN)
    cput = (r1.ru_utime + r1.ru_stime) - (r0.ru_utime + r0.ru_stime)
    rc = p.returncode
    sig = None
    if rc < 0:
        sig = -rc
        rc = None
    return Result(rc, sig, out, err, cput, timeout, full)


def write(path, data):
    with open(path, 'wb') as f:
        f.write(data if isinstance(data, bytes) else data.encode('utf-8', 'surrogateescape'))


def read(path):
    with open(path, 'rb') as f:
        return f.read()


LANG_EXT = {'C': '.c', 'CPP': '.cpp', 'D': '.d', 'CS': '.cs', 'JAVA': '.java', 'OC': '.m', 'OC+': '.mm',
            'VALA': '.vala', 'PAWN': '.pawn', 'ECMA': '.es'}


def fmt(src, lang, cfg='', args=(), kind='fast', dump=False, cpu=CPU_LIMIT, env=None, name=None, quiet=True, files=None):
    """format `src` (bytes) given on stdin.  cfg is config text ('' = built-in defaults via an empty file).
    returns (Result, dumps) ; dumps = {'tok0': path-bytes, 'preout': ..., 'space': ...} when dump"""
    with TempDir() as d:
        cfgp = os.path.join(d, 'c.cfg')
        write(cfgp, cfg)
        for fn, data in (files or {}).items():      # (files the configuration refers to by relative name, e.g. an inserted header)
            write(os.path.join(d, fn), data)
        a = ['-c', cfgp, '-l', lang]
        if quiet:
            a.append('-q')
        if name:
            a += ['--assume', name]
        a += list(args)
        e = dict(env or {})
        if dump:
            e['UNCRUSTIFY_VERIF_DUMP'] = os.path.join(d, 'dump')
        r = run(a, stdin=src, kind=kind, env=e, cpu=cpu, cwd=d)
        dumps = {}
        if dump:
            for st in ('tok0', 'preout', 'space'):
                p = os.path.join(d, 'dump.0.' + st)
                if os.path.exists(p):
                    dumps[st] = read(p)
        return r, dumps
