"""Syscall census and fault injection with strace (ptrace is available in the sandbox)."""
import os
import re
import subprocess

from . import build, run

SET = 'openat,creat,read,write,close,rename,renameat,renameat2,unlink,unlinkat,mkdir,newfstatat,utime,utimensat,ftruncate,lseek'
LINE = re.compile(r'^(\d+)\s+([a-z0-9_]+)\((.*)\)\s+=\s+(-?\d+|\?)(.*)$')


class Call:
    __slots__ = ('k', 'name', 'args', 'ret', 'path', 'fd', 'mode', 'n')

    def __init__(self, k, name, args, ret):
        self.k, self.name, self.args, self.ret = k, name, args, ret
        self.path = None
        self.fd = None
        self.mode = None
        self.n = 0          # ordinal among the calls of the same name (what strace's when= counts)

    def __repr__(self):
        return '#%d %s(%s)=%s [%s]' % (self.k, self.name, self.args[:50], self.ret, self.path)


def _strace(extra, argv, cwd, stdin=None, out='/dev/null', env=None, kind='fast', timeout=60):
    exe = build.binary(kind)
    cmd = ['strace', '-f', '-o', out, '-e', 'trace=' + SET] + extra + [exe] + list(argv)
    e = run.base_env(env)
    p = subprocess.Popen(cmd, stdin=subprocess.PIPE if stdin is not None else subprocess.DEVNULL, stdout=subprocess.PIPE,
                         stderr=subprocess.PIPE, cwd=cwd, env=e)
    try:
        o, err = p.communicate(stdin, timeout=timeout)
    except subprocess.TimeoutExpired:
        p.kill()
        o, err = p.communicate()
        return run.Result(None, None, o, err, 0.0, True, cmd)
    rc = p.returncode
    sig = None
    if rc < 0:
        sig, rc = -rc, None
    elif rc > 128 and b'+++ killed by' in err:
        sig, rc = rc - 128, None
    return run.Result(rc, sig, o, err, 0.0, False, cmd)


def census(argv, cwd, stdin=None, env=None):
    """returns (Result, [Call...]) for an unfaulted run; call.k = ordinal overall, call.n = ordinal among calls of that name"""
    tr = os.path.join(cwd, '..', 'trace.%d.txt' % os.getpid())
    r = _strace([], argv, cwd, stdin, out=tr, env=env)
    calls = []
    fds = {}
    pername = {}
    k = 0
    for line in open(tr, errors='replace'):
        m = LINE.match(line.rstrip('\n'))
        if not m:
            continue
        k += 1
        name, args, ret = m.group(2), m.group(3), m.group(4)
        c = Call(k, name, args, ret)
        pername[name] = pername.get(name, 0) + 1
        c.n = pername[name]
        pm = re.search(r'"((?:[^"\\]|\\.)*)"', args)
        if name in ('openat', 'creat'):
            c.path = pm.group(1) if pm else None
            c.mode = 'w' if ('O_WRONLY' in args or 'O_RDWR' in args or name == 'creat') else 'r'
            if ret.isdigit():
                fds[int(ret)] = (c.path, c.mode)
        elif name in ('read', 'write', 'close', 'lseek', 'ftruncate') or (name == 'newfstatat' and not args.startswith('AT_FDCWD')):
            fm = re.match(r'(\d+)', args)
            if fm:
                c.fd = int(fm.group(1))
                c.path, c.mode = fds.get(c.fd, ({0: '<stdin>', 1: '<stdout>', 2: '<stderr>'}.get(c.fd), None))
                if name == 'close':
                    fds.pop(c.fd, None)
        else:
            c.path = pm.group(1) if pm else None
            if name.startswith('rename'):
                ps = re.findall(r'"((?:[^"\\]|\\.)*)"', args)
                c.path = '->'.join(ps)
        calls.append(c)
    try:
        os.unlink(tr)
    except OSError:
        pass
    return r, calls


def inject(argv, cwd, call, fault, stdin=None, env=None):
    """fault the census call `call`: ('kill',) -> SIGKILL on entering it ; ('error', 'ENOSPC') -> it fails with that errno
    (not executed).  strace counts `when=` per syscall name, hence (name, ordinal among that name)."""
    if fault[0] == 'kill':
        spec = 'inject=%s:signal=KILL:when=%d' % (call.name, call.n)
    else:
        spec = 'inject=%s:error=%s:when=%d' % (call.name, fault[1], call.n)
    return _strace(['-e', spec], argv, cwd, stdin, env=env)


def inject_named(argv, cwd, specs, stdin=None, env=None):
    """specs: list of (syscall name, ordinal among calls of that name, fault) - independent counters per syscall name"""
    extra = []
    for name, n, fault in specs:
        if fault[0] == 'kill':
            extra += ['-e', 'inject=%s:signal=KILL:when=%d' % (name, n)]
        else:
            extra += ['-e', 'inject=%s:error=%s:when=%d' % (name, fault[1], n)]
    return _strace(extra, argv, cwd, stdin, env=env)


ERRNOS = {
    'openat': ['EACCES', 'ENOSPC', 'EMFILE', 'EROFS', 'EIO'],
    'write': ['ENOSPC', 'EIO', 'EDQUOT'],
    'close': ['EIO', 'ENOSPC'],
    'rename': ['EACCES', 'EROFS', 'ENOSPC', 'EIO'],
    'read': ['EIO'],
    'unlink': ['EACCES', 'EIO'],
    'newfstatat': ['EACCES', 'EIO'],
}
