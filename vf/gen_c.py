"""Hypothesis strategy producing compilable C programs as annotated token lists.

Token = (kind, text) with kind in id kw num str chr punct; pseudo tokens:
  ('nl','')        mandatory line break (end of directive / after // comment)
  ('stmt', depth)  next token starts a statement at block depth `depth`
  ('slot','')      trivia slot (comment / newline may be inserted)
"""
from hypothesis import strategies as st

INT_VARS = ['a', 'b', 'c']
BINOPS = ['+', '-', '*', '/', '%', '&', '|', '^', '<<', '>>', '<', '>', '<=', '>=', '==', '!=', '&&', '||']
ASSIGNOPS = ['=', '+=', '-=', '*=', '/=', '%=', '&=', '|=', '^=', '<<=', '>>=']


def P(t):
    return ('punct', t)


def K(t):
    return ('kw', t)


def I(t):
    return ('id', t)


LITS_NO_RAW_TAB = ['"plain"', '"tab\\there"', '"two  spaces "', '"// not a comment"', '"%d\\n"', '""', 'L"wide"']


class Gen:
    def __init__(self, draw, max_depth, pp=True):
        self.draw = draw
        self.pp = pp
        self.lits = True
        self.safe_else = False
        self.junk_brackets = True
        self.pp_split = False
        self.max_depth = max_depth
        self.nvars = 0
        self.labels = 0

    def choice(self, seq):
        return seq[self.draw(st.integers(0, len(seq) - 1))]

    def coin(self, p=0.5):
        return self.draw(st.floats(0, 1, allow_nan=False)) < p

    # ---------------------------------------------------------------- expressions (all of type int/long)
    def lvalue(self, vars_):
        k = self.draw(st.integers(0, 5))
        if k <= 2:
            return [I(self.choice(vars_))]
        if k == 3:
            return [P('*'), I('p')]
        if k == 4:
            return [I('arr'), P('['), ('num', str(self.draw(st.integers(0, 3)))), P(']')]
        return [I('s'), P(self.choice(['.', '->']) if False else '.'), I(self.choice(['x', 'y']))]

    def primary(self, vars_, d):
        k = self.draw(st.integers(0, 11))
        if k <= 2:
            return [I(self.choice(vars_))]
        if k == 3:
            return [('num', self.choice(['0', '1', '2', '42', '0x1F', '07', '1u', '3L', '1e0 > 0', "'a'", "'\\n'"]))] if False else \
                   [('num', self.choice(['0', '1', '2', '42', '0x1F', '07', '1u', '3L']))]
        if k == 4:
            return [('chr', self.choice(["'a'", "'\\n'", "'\\''", "'/'"]))]
        if k == 5:
            return [P('*'), I('p')]
        if k == 6:
            return [I('ps'), P('->'), I(self.choice(['x', 'y']))]
        if k == 7:
            return [I('s'), P('.'), I(self.choice(['x', 'y']))]
        if k == 8:
            return [I('arr'), P('[')] + self.expr(vars_, d + 1, small=True) + [P('&'), ('num', '3'), P(']')]
        if k == 9 and d < 3:
            return [I('g'), P('(')] + self.expr(vars_, d + 1) + [P(','), ('slot', '')] + self.expr(vars_, d + 1) + [P(')')]
        if k == 10:
            return [K('sizeof'), P('(')] + self.choice([[K('int')], [K('long')], [I('s')], [K('struct'), I('S')]]) + [P(')')]
        if d < 3:
            return [P('(')] + self.expr(vars_, d + 1) + [P(')')]
        return [I(self.choice(vars_))]

    def unary(self, vars_, d):
        k = self.draw(st.integers(0, 9))
        if k <= 4 or d >= 3:
            return self.primary(vars_, d)
        if k == 5:
            return [P(self.choice(['-', '+', '!', '~']))] + self.unary(vars_, d + 1)
        if k == 6:
            return [P(self.choice(['++', '--']))] + self.lvalue(vars_)
        if k == 7:
            return self.lvalue(vars_) + [P(self.choice(['++', '--']))]
        if k == 8:
            return [P('('), K(self.choice(['int', 'long', 'unsigned', 'short'])), P(')')] + self.unary(vars_, d + 1)
        return [P('('), K('long'), P(')'), P('&'), I(self.choice(vars_))]

    def expr(self, vars_, d=0, small=False):
        e = self.unary(vars_, d)
        n = self.draw(st.integers(0, 1 if small or d >= 2 else 3))
        for _ in range(n):
            e = e + [P(self.choice(BINOPS)), ('slot', '')] + self.unary(vars_, d + 1)
        if not small and d < 2 and self.coin(0.12):
            e = [P('(')] + e + [P(')'), P('?'), ('slot', '')] + self.expr(vars_, d + 1, True) + [P(':')] + self.expr(vars_, d + 1, True)
        return e

    # ---------------------------------------------------------------- statements
    def simple_stmt(self, vars_):
        k = self.draw(st.integers(0, 6))
        if k <= 2:
            return self.lvalue(vars_) + [P(self.choice(ASSIGNOPS)), ('slot', '')] + self.expr(vars_) + [P(';')]
        if k == 3:
            return self.lvalue(vars_) + [P(self.choice(['++', '--'])), P(';')]
        if k == 4:
            return [I('g'), P('(')] + self.expr(vars_) + [P(',')] + self.expr(vars_) + [P(')'), P(';')]
        if k == 5:
            return [K('return')] + (self.expr(vars_) if self.coin(0.8) else [P('('), ] + self.expr(vars_) + [P(')')]) + [P(';')]
        if self.lits and self.coin(0.8):
            lit = self.choice(LITS_NO_RAW_TAB if self.lits == 'no-raw-tab' else ['"plain"', '"tab\there"', '"raw	tab"', '"two  spaces "', '"q\\"uote"', '"// not a comment"', '"/* nor this */"',
                               '"\u00e9\u4e2d"', '"trailing \\\\"', '"%d\\n"', '"a" "b"', '""', 'L"wide"', '"#define X"'])
            ch = self.choice(["'x'", "'\\''", "'\t'", "'\\\\'", "'\"'", "'/'", "'*'"])
            return [I('g'), P('('), P('('), K('int'), P(')'), K('sizeof'), P('('), ('str', lit), P(')'), P(','), ('slot', ''), ('chr', ch), P(')'), P(';')]
        return [P(';')]

    def body(self, vars_, depth, in_loop, in_switch, braces=None):
        """statement used as the body of if/for/while: braced block or single statement"""
        if braces is None:
            braces = self.coin(0.6)
        if braces:
            return [P('{')] + self.block_items(vars_, depth + 1, in_loop, in_switch) + [('stmt', depth, 'close'), P('}')]
        return [('stmt', depth + 1, 'single')] + self.stmt(vars_, depth + 1, in_loop, in_switch, allow_decl=False, no_block=True)

    def stmt(self, vars_, depth, in_loop, in_switch, allow_decl=True, no_block=False):
        if depth >= self.max_depth:
            return self.simple_stmt(vars_)
        k = self.draw(st.integers(0, 15))
        if k <= 5:
            return self.simple_stmt(vars_)
        if k == 6:
            m = self.draw(st.integers(0, 2))
            # with safe_else an `if` that is followed by `else` gets a braced body, so that no dangling-else shape arises and the
            # depth annotations stay exact (needed by C18); without it the dangling shapes are generated on purpose (C01, C04)
            t = [K('if'), P('(')] + self.expr(vars_) + [P(')'), ('slot', '')] + \
                self.body(vars_, depth, in_loop, in_switch, braces=True if (self.safe_else and m) else None)
            # avoid dangling-else ambiguity only by construction of unbraced nested ifs: allowed, it is legal C
            for _ in range(m if m < 2 else 1):
                t += [('stmt', depth, 'else'), K('else'), K('if'), P('(')] + self.expr(vars_) + [P(')')] + \
                    self.body(vars_, depth, in_loop, in_switch, braces=True if self.safe_else else None)
            if m:
                t += [('stmt', depth, 'else'), K('else'), ('slot', '')] + self.body(vars_, depth, in_loop, in_switch, braces=True if self.safe_else else None)
            return t
        if k == 7:
            if self.coin(0.3):      # an infinite loop header, with a trivia slot between the constant and ')'
                return [K('while'), P('('), ('num', '1'), ('slot', ''), P(')'), ('slot', '')] + self.body(vars_, depth, True, in_switch, braces=True) if False else \
                    [K('while'), P('('), ('num', '1'), ('slot', ''), P(')'), ('slot', ''), P('{')] + self.block_items(vars_, depth + 1, True, in_switch) + \
                    [('stmt', depth + 1, 'stmt'), K('break'), P(';'), ('stmt', depth, 'close'), P('}')]
            return [K('while'), P('(')] + self.expr(vars_) + [P(')')] + self.body(vars_, depth, True, in_switch)
        if k == 8:
            init = self.choice([[], [I('i'), P('='), ('num', '0')]])
            return [K('for'), P('(')] + init + [P(';')] + self.choice([[], [I('i'), P('<'), ('num', '3')]]) + [P(';')] + \
                self.choice([[], [I('i'), P('++')], [P('++'), I('i')]]) + [P(')')] + self.body(vars_, depth, True, in_switch)
        if k == 9:
            return [K('do'), ('slot', '')] + self.body(vars_, depth, True, in_switch, braces=True if self.coin(0.8) else False) + \
                [('stmt', depth, 'dowhile'), K('while'), P('(')] + (self.expr(vars_) if self.coin(0.7) else [('num', '0'), ('slot', '')]) + [P(')'), P(';')]
        if k == 10:
            t = [K('switch'), P('(')] + self.expr(vars_) + [P(')'), P('{')]
            for c in range(self.draw(st.integers(1, 3))):
                t += [('stmt', depth, 'case'), K('case'), ('num', str(c)), P(':')]
                for _ in range(self.draw(st.integers(0, 2))):
                    t += [('stmt', depth + 1, 'stmt')] + self.stmt(vars_, depth + 1, in_loop, True, allow_decl=False, no_block=self.safe_else)
                if self.coin(0.8):
                    t += [('stmt', depth + 1, 'stmt'), K('break'), P(';')]
            t += [('stmt', depth, 'case'), K('default'), P(':'), ('stmt', depth + 1, 'stmt'), K('break'), P(';')]
            return t + [('stmt', depth, 'close'), P('}')]
        if k == 11 and not no_block:       # (a bare block as an unbraced body would simply be a braced body)
            return [P('{')] + self.block_items(vars_, depth + 1, in_loop, in_switch) + [('stmt', depth, 'close'), P('}')]
        if k == 12 and in_loop:
            return [K(self.choice(['break', 'continue'])), P(';')]
        if k == 13 and in_switch and not in_loop:
            return [K('break'), P(';')]
        if k == 14 and allow_decl:
            self.nvars += 1
            name = 'v%d' % self.nvars
            ty = self.choice([[K('int')], [K('long')], [K('unsigned'), K('int')], [K('unsigned')], [K('long'), K('int')],
                              [K('short')], [K('const'), K('int')], [K('volatile'), K('long')], [K('signed'), K('char')]])
            t = ty + [I(name), P('='), ('slot', '')] + self.expr(vars_) + [P(';')]
            if ty[0][1] != 'const':
                vars_.append(name)
            return t
        if k == 15 and self.pp and self.pp_split:
            # a conditional group that ends between a keyword and the brace of its block (`else` / `do`, then `#endif`, then `{`)
            end = self.directive([P('#'), I('endif')])
            if self.coin():
                return self.directive([P('#'), K('if'), ('num', '1')]) + [('stmt', depth, 'stmt'), K('if'), P('(')] + self.expr(vars_) + \
                    [P(')'), P('{')] + self.block_items(vars_, depth + 1, in_loop, in_switch) + [('stmt', depth, 'close'), P('}'), K('else')] + end + \
                    [('stmt', depth, 'stmt'), P('{')] + self.block_items(vars_, depth + 1, in_loop, in_switch) + [('stmt', depth, 'close'), P('}')]
            return self.directive([P('#'), I('ifndef'), I('NOT_DEFINED_ANYWHERE')]) + [('stmt', depth, 'stmt'), K('do')] + end + \
                [('stmt', depth, 'stmt'), P('{')] + self.block_items(vars_, depth + 1, True, in_switch) + \
                [('stmt', depth, 'close'), P('}'), K('while'), P('(')] + self.expr(vars_) + [P(')'), P(';')]
        return self.simple_stmt(vars_)

    def directive(self, toks):
        return [('dir', 'start')] + list(toks) + [('dir', 'end')]

    def pp_wrapped(self, vars_, depth, in_loop, in_switch):
        """a statement inside a conditional group; inactive branches may hold text that is not C"""
        k = self.draw(st.integers(0, 4))
        inner = [('stmt', depth, 'stmt')] + self.simple_stmt(vars_)
        other = [('stmt', depth, 'stmt')] + self.simple_stmt(vars_)
        junk = [('stmt', depth, 'stmt'), I('this'), I('is'), I('not'), P('}'), I('C'), P(')'), ('num', '1x2'), P('->'), P(';')]
        if not self.junk_brackets:
            junk = [t for t in junk if t not in (P('}'), P(')'))]
        if k == 0:
            return self.directive([P('#'), K('if'), ('num', '1')]) + inner + self.directive([P('#'), I('endif')])
        if k == 1:
            return self.directive([P('#'), I('ifdef'), I('NOT_DEFINED_ANYWHERE')]) + other + self.directive([P('#'), K('else')]) + inner + \
                self.directive([P('#'), I('endif')])
        if k == 2:
            return self.directive([P('#'), K('if'), ('num', '0')]) + junk + self.directive([P('#'), I('endif')]) + inner
        if k == 3:
            return self.directive([P('#'), K('if'), I('defined'), P('('), I('NOT_DEFINED_ANYWHERE'), P(')'), P('&&'), ('num', '1'), P('>'), ('num', '2')]) + \
                junk + self.directive([P('#'), I('elif'), ('num', '1')]) + inner + self.directive([P('#'), I('endif')])
        return self.directive([P('#'), I('ifndef'), I('NOT_DEFINED_ANYWHERE')]) + inner + self.directive([P('#'), I('endif')])

    def macro_use(self, vars_):
        k = self.draw(st.integers(0, 3))
        if k == 0:
            return [I('SWAP'), P('('), I('a'), P(','), I('b'), P(')'), P(';')]
        if k == 1:
            return [I(self.choice(vars_)), P('='), I('INC'), P('(')] + self.expr(vars_, 2, True) + [P(')'), P(';')]
        if k == 2:
            return [I(self.choice(vars_)), P('+='), I('TWICE'), P('('), I(self.choice(vars_)), P(')'), I('EMPTY'), P(';')]
        return [I(self.choice(vars_)), P('='), K('sizeof'), P('('), I('STR'), P(')'), P(';')]

    def block_items(self, vars_, depth, in_loop, in_switch):
        vars_ = list(vars_)
        t = []
        for _ in range(self.draw(st.integers(1, 4))):
            r = self.draw(st.integers(0, 19)) if self.pp else 99
            if r == 0:
                t += self.pp_wrapped(vars_, depth, in_loop, in_switch)
            elif r == 1:
                t += [('stmt', depth, 'stmt')] + self.macro_use(vars_)
            else:
                t += [('stmt', depth, 'stmt')] + self.stmt(vars_, depth, in_loop, in_switch)
        return t

    def function(self, idx):
        name = 'f%d' % idx
        hdr = [self.choice([K('int'), K('long')]) if True else K('int')]
        if self.coin(0.3):
            hdr = [K('static')] + hdr
        hdr += [I(name), P('('), K('int'), I('a'), P(','), K('int'), I('b'), P(','), K('int'), P('*'), I('p'), P(')')]
        body = [('stmt', 0, 'open'), P('{'),
                ('stmt', 1, 'stmt'), K('int'), I('c'), P('='), ('num', '0'), P(','), I('i'), P('='), ('num', '0'), P(';'),
                ('stmt', 1, 'stmt'), K('int'), I('arr'), P('['), ('num', '4'), P(']'), P('='), P('{'), ('num', '1'), P(','), ('num', '2'), P('}'), P(';'),
                ('stmt', 1, 'stmt'), K('struct'), I('S'), I('s'), P('='), P('{'), ('num', '0'), P(','), ('num', '0'), P('}'), P(','), P('*'), I('ps'), P('='), P('&'), I('s'), P(';')]
        body += self.block_items(list(INT_VARS), 1, False, False)
        body += [('stmt', 1, 'stmt'), K('return'), I('a'), P('+'), I('c'), P('+'), I('i'), P('+'), I('arr'), P('['), ('num', '0'), P(']'), P('+'), I('ps'), P('->'), I('x'), P(';'),
                 ('stmt', 0, 'close'), P('}')]
        return [('stmt', 0, 'top')] + hdr + body


MACROS = [
    # (tokens of a directive; ('cont','') marks a place where a backslash-newline may be put)
    [P('#'), I('define'), I('INC'), ('glue', ''), P('('), I('x'), P(')'), P('('), P('('), I('x'), P(')'), P('+'), ('num', '1'), P(')')],
    [P('#'), I('define'), I('SWAP'), ('glue', ''), P('('), I('x'), P(','), I('y'), P(')'), ('cont', ''), K('do'), P('{'), ('slot', ''), ('cont', ''), K('int'), I('t_'), P('='),
     I('x'), P(';'), ('slot', ''), ('cont', ''), I('x'), P('='), I('y'), P(';'), ('cont', ''), I('y'), P('='), I('t_'), P(';'), ('slot', ''), ('cont', ''), P('}'), K('while'),
     P('('), ('num', '0'), P(')')],
    [P('#'), I('define'), I('EMPTY')],
    [P('#'), I('define'), I('TWICE'), ('glue', ''), P('('), I('x'), P(')'), ('cont', ''), P('('), ('num', '2'), P('*'), P('('), I('x'), P(')'), P(')')],
    [P('#'), I('define'), I('STR'), ('str', '"a\\tb"'), ('cont', ''), ('str', '" c"')],
    [P('#'), I('define'), I('UNUSED_BODY'), P('{'), I('nothing'), P('->'), I('here'), P('('), P(')'), P(';'), P('}'), P('}')],
    [P('#'), I('pragma'), I('once')],
    [P('#'), I('include'), ('hdr', '<stddef.h>')],
    [P('#'), I('include'), ('str', '"limits.h"')],
    [P('#'), I('undef'), I('NOT_DEFINED_ANYWHERE')],
    # directives whose body is kept as raw text, continued over lines
    [P('#'), I('pragma'), I('GCC'), I('diagnostic'), ('cont', ''), I('ignored'), ('cont', ''), ('str', '"-Wunused-variable"')],
    [P('#'), I('pragma'), I('GCC'), I('poison'), ('cont', ''), I('NEVER_USED_ANYWHERE_1'), ('cont', ''), I('NEVER_USED_ANYWHERE_2')],
]


PRELUDE = [
    ('stmt', 0, 'top'), K('struct'), I('S'), P('{'), ('stmt', 1, 'stmt'), K('int'), I('x'), P(';'), ('stmt', 1, 'stmt'), K('int'), I('y'), P(';'), ('stmt', 0, 'close'), P('}'), P(';'),
    ('stmt', 0, 'top'), K('extern'), K('int'), I('g'), P('('), K('int'), P(','), K('int'), P(')'), P(';'),
]


@st.composite
def c_program(draw, max_depth=4, pp=True, max_funcs=3, lits=True, safe_else=False, junk_brackets=True, pp_split=False):
    g = Gen(draw, draw(st.integers(1, max_depth)), pp)
    g.lits = lits
    g.safe_else = safe_else
    g.junk_brackets = junk_brackets
    g.pp_split = pp_split
    toks = []
    if pp:
        for m in MACROS[:5]:
            toks += g.directive(m)
        for m in MACROS[5:]:
            if g.coin(0.3):
                toks += g.directive(m)
    toks += list(PRELUDE)
    for i in range(draw(st.integers(1, max_funcs))):
        toks += g.function(i)
    return toks


def real_tokens(toks):
    return [t for t in toks if t[0] in ('id', 'kw', 'num', 'str', 'chr', 'punct', 'hdr')]


def render_plain(toks):
    """simplest layout: one statement per line, single spaces"""
    out = []
    line = []
    glue = False
    for t in toks:
        if t[0] == 'glue':
            glue = True
            continue
        if glue and line and t[0] not in ('stmt', 'dir', 'slot', 'nl', 'cont'):
            line[-1] += t[1]
            glue = False
            continue
        if t[0] == 'stmt':
            if line:
                out.append(' '.join(line))
                line = []
        elif t[0] == 'dir':
            if line:
                out.append(' '.join(line))
                line = []
        elif t[0] in ('slot', 'nl', 'cont'):
            continue
        else:
            line.append(t[1])
    if line:
        out.append(' '.join(line))
    return '\n'.join(out) + '\n'


# ------------------------------------------------------------------------------------------------ enumerated brace shapes
def brace_shapes_ml(max_levels=2):
    """like brace_shapes, with every subset of the headers (and the outer `if (a)`) written over two lines"""
    import itertools
    for name, src in brace_shapes(max_levels):
        spots = [m.start() for m in __import__('re').finditer(r' > | < |-- > ', src) if src[:m.start()].count('\n') >= 2]
        spots = spots[:3]
        for mask in itertools.product((0, 1), repeat=len(spots)):
            if not any(mask):
                continue
            t = src
            for pos, on in sorted(zip(spots, mask), reverse=True):
                if on:
                    k = t.index(' ', pos + 1)
                    t = t[:k] + '\n           ' + t[k + 1:]
            yield (name + '|ml' + ''.join(map(str, mask)), t)


def brace_shapes_cmt(max_levels=2):
    """like brace_shapes, with a `//` comment behind every header / `else` whose body has no braces and a block comment in front of
    that body on the next line (the position at which a brace that is added must not end up inside the `//` comment)"""
    for name, src in brace_shapes(max_levels, sep=' // c1\n        /* c2 */ '):
        yield (name + '|cmt', src)


def brace_shapes(max_levels=3, sep=' '):
    """Small complete C programs enumerating every nesting of up to `max_levels` compound headers (if / for / while / else-less if),
    each level braced or not, around an innermost `if (p) x = 1;` or plain statement, followed (or not) by `else`: the shapes on which
    brace removal / addition can re-bind a dangling else.  Yields (name, source text)."""
    import itertools
    heads = {'if': 'if (a > %d)', 'for': 'for (i = 0; i < %d; i++)', 'while': 'while (b-- > %d)'}
    for n in range(0, max_levels + 1):
        for kinds in itertools.product(sorted(heads), repeat=n):
            for braces in itertools.product((0, 1), repeat=n):
                for inner in ('if', 'stmt', 'ifelse'):
                    for tail in ('else', 'none'):
                        body = {'if': 'if (p[0]) x = 1;', 'stmt': 'x = 1;', 'ifelse': 'if (p[0]) x = 1; else x = 3;'}[inner]
                        for k, br, lvl in reversed(list(zip(kinds, braces, range(n)))):
                            h = heads[k] % (lvl + 1)
                            body = '%s { %s }' % (h, body) if br else '%s%s%s' % (h, sep, body)
                        src = 'int f(int a, int b, int *p)\n{\n    int x = 0, i = 0;\n    if (a)%s%s%s\n    return x + i + b;\n}\n' % (
                            sep, ('{ %s }' % body) if (n and braces[0] and False) else body, (' else%sx = 2;' % sep) if tail == 'else' else '')
                        yield ('%s|%s|%s|%s' % ('-'.join(kinds) or 'flat', ''.join(map(str, braces)), inner, tail), src)


# ------------------------------------------------------------------------------------------------ enumerated expression shapes
def paren_shapes(per_program=10):
    """Small complete C programs enumerating boolean / comparison expression shapes (operands: variables, comparisons, negations,
    calls with one or two arguments that are themselves boolean expressions, comma expressions, conditionals, casts, subscripts)
    in every statement context in which a parenthesis-inserting or -removing option acts (if / while / for condition, assignment,
    initialiser, return, call argument): the shapes on which mod_full_paren_*_bool / mod_paren_on_return can change how an
    expression groups.  Yields (name, source text); each program holds `per_program` statements, one per line."""
    import itertools
    atoms = ['a', 'b == 2', 'c < a', '!b', 'g(a, b)', 'g(1, b == 2 && c)', 'g(a || b, c != 1)', '(a, b)', 'a ? b : c', '(long)a', 'arr[b == 2]', '*p',
             'a & 3', 'g(g(a, b == 1 || c), 2)']
    forms = ['%s', '%s && %s', '%s || %s', '%s && %s || %s', '%s == %s && %s', '(%s || %s) && %s', '%s ? %s : %s', 'g(%s, %s)', 'g(%s, %s && %s)',
             '!(%s && %s)', '%s != (%s || %s)', 'g(%s && %s, %s)']
    ctxs = ['if (%s) c++;', 'c = %s;', 'return %s;', 'while (%s) { c++; break; }', 'c = g(%s, 1);', 'for (; %s; ) break;', 'int v = %s; c += v;',
            'do c--; while (%s);', 'c += (%s) ? 1 : 2;']
    exprs = []
    k = 0
    for f in forms:
        n = f.count('%s')
        # a covering choice of operand tuples: every atom in every position, neighbours rotated (not the full product)
        for i in range(len(atoms)):
            ops = tuple(atoms[(i + 5 * j + k) % len(atoms)] for j in range(n))
            ops = tuple(('(%s)' % o) if (' ? ' in o and n > 1) else o for o in ops)      # a conditional operand keeps its own parentheses
            exprs.append(f % ops)
        k += 1
    stmts = []
    for j, e in enumerate(exprs):
        for q in range(3):                      # three contexts per expression, rotating through all nine
            stmts.append(ctxs[(j + 3 * q + j // len(ctxs)) % len(ctxs)] % e)
    prog = 0
    for at in range(0, len(stmts), per_program):
        body = stmts[at:at + per_program]
        lines = []
        for t in body:
            if t.startswith('return'):
                t = 'if (c == %d) %s' % (len(lines) + 100, t)           # (keeps the following statements reachable)
            elif t.startswith('int v'):
                t = '{ ' + t + ' }'
            lines.append('    ' + t)
        src = 'extern int g(int, int);\nint f(int a, int b, int *p)\n{\n    int c = 0;\n    int arr[4] = { 1, 2 };\n%s\n    return c + arr[0];\n}\n' % '\n'.join(lines)
        yield ('paren-shapes-%03d' % prog, src)
        prog += 1


# ------------------------------------------------------------------------------------------------ construct tags for signatures
import re as _re
KW_ENDIF_BRACE = _re.compile(rb'\b(do|else)\b[ \t]*(?://[^\n]*|/\*[^\n]*?\*/)?[ \t]*\r?\n(?:[ \t]*\r?\n)*[ \t]*#[ \t]*endif\b[^\n]*\n\s*\{')
BODY_STARTS_WITH_DIRECTIVE = _re.compile(rb'(?:\)|\belse)[ \t]*(?://[^\n]*|/\*[^\n]*?\*/)?[ \t]*\r?\n(?:[ \t]*\r?\n)*[ \t]*#[ \t]*(?:if|ifdef|ifndef)\b')


BRACE_BEFORE_ENDIF = _re.compile(rb'\{[ \t]*(?://[^\n]*|/\*[^\n]*?\*/)?[ \t]*\r?\n(?:[ \t]*\r?\n)*[ \t]*#[ \t]*endif\b')


def construct_tags(src):
    """tags for a failure signature: does the (minimised) program hold a conditional group that ends between `do` / `else` and the brace
    of its block, or a statement body (no braces) that starts with a conditional directive?  Both are shapes uncrustify's statement
    parser is known not to follow (ledger C01-K14, C04-K6)."""
    tags = ''
    m = KW_ENDIF_BRACE.search(src)
    if m:
        tags += ' kw-endif-brace:' + m.group(1).decode()
    if BODY_STARTS_WITH_DIRECTIVE.search(src):
        tags += ' body-starts-with-directive'
    if BRACE_BEFORE_ENDIF.search(src):
        tags += ' brace-before-endif'        # (what line-wise minimisation makes of the first shape: a block opened inside a group, closed outside)
    return tags


# ------------------------------------------------------------------------------------------------ enumerated conditional groups
def ifdef_shapes():
    """Small complete C programs enumerating conditional groups: opener (#if / #ifdef / #ifndef, plain or complex condition), with or
    without a block or line comment behind the directive, body of 1 / 3 / 6 lines, with / without #else and #elif, nested or not -
    the shapes on which the options that append a comment to #else / #endif act.  Yields (name, source text)."""
    import itertools
    openers = [('ifdef', '#ifdef FOO'), ('ifndef', '#ifndef FOO'), ('if', '#if defined(FOO) && (BAR > 2)'), ('if1', '#if 1'), ('ifsp', '#  if FOO')]
    trails = [('none', ''), ('blk', ' /* feature */'), ('line', ' // feature'), ('blk2', ' /* a */ /* b */')]
    bodies = [1, 3, 6]
    tails = ['endif', 'else', 'elif-else']
    n = 0
    for (on, o), (tn, t), nb, tail, nested in itertools.product(openers, trails, bodies, tails, (False, True)):
        n += 1
        if (n * 7) % 5 not in (0, 1) and not (tn == 'blk' and nb == 3):       # a covering sample; every blk x 3-line shape is kept
            continue
        body = ''.join('    x += %d;\n' % (i + 1) for i in range(nb))
        inner = ('#ifdef INNER%s\n    x ^= 1;\n    x ^= 2;\n#else%s\n    x ^= 3;\n    x ^= 4;\n#endif\n' % (t, t)) if nested else ''
        src = 'int f(int x)\n{\n%s%s\n%s%s' % (o, t, body, inner)
        if tail == 'elif-else':
            src += '#elif BAR%s\n%s' % (t, body.replace('+=', '-='))
        if tail != 'endif':
            src += '#else%s\n%s' % (t, body.replace('+=', '*='))
        src += '#endif%s\n    return x;\n}\n' % ('' if tn == 'line' else t)
        yield ('ifdef|%s|%s|%d|%s|%s' % (on, tn, nb, tail, 'nested' if nested else 'flat'), src)


# ------------------------------------------------------------------------------------------------ fixed programs
class _FixedDraw:
    """stands in for Hypothesis' draw() so that a *fixed* program can be built from a constant (used for the option sweeps of the
    fixed universes; the strategies drawn by Gen are st.integers(lo, hi), st.floats(0, 1) and st.booleans() only)"""

    def __init__(self, seed):
        import random
        self.rng = random.Random(seed)

    def __call__(self, s):
        w = getattr(s, 'wrapped_strategy', s)
        n = type(w).__name__
        if n == 'IntegersStrategy':
            return self.rng.randint(w.start, w.end)
        if n == 'FloatStrategy':
            return self.rng.random()
        if n == 'BooleansStrategy':
            return self.rng.random() < 0.5
        raise TypeError('unsupported strategy in fixed program: %s' % n)


def fixed_program(seed, max_depth=4, funcs=3, **flags):
    """a deterministic program (token list) built with the same grammar as c_program"""
    d = _FixedDraw(seed)
    g = Gen(d, max_depth, flags.pop('pp', True))
    for k, v in flags.items():
        setattr(g, k, v)
    toks = []
    if g.pp:
        for m in MACROS:
            toks += g.directive(m)
    toks += list(PRELUDE)
    for i in range(funcs):
        toks += g.function(i)
    return toks
