"""Option registry read from the binary under test (--universalindent), plus config strategies."""
import functools
import random
import subprocess

from . import build


@functools.lru_cache(maxsize=4)
def load(kind='fast'):
    """list of dicts: name, type in {'enum','bool','num','str'}, choices, min, max, default"""
    txt = subprocess.run([build.binary(kind), '--universalindent'], capture_output=True, text=True).stdout
    opts = []
    for sec in txt.split('\n\n'):
        lines = sec.strip().split('\n')
        if not lines or not lines[0].startswith('[') or lines[0] == '[header]':
            continue
        d = {}
        for l in lines[1:]:
            if '=' in l:
                k, v = l.split('=', 1)
                d[k] = v
        et = d.get('EditorType')
        o = {'default': d.get('ValueDefault', ''), 'min': None, 'max': None, 'choices': None, 'cat': int(d.get('Category', -1)),
             'desc': d.get('Description', '')}
        if et == 'multiple':
            ch = d['Choices'].strip('"').split('|')
            o['name'] = ch[0].split('=')[0]
            o['choices'] = [c.split('=')[1] for c in ch]
            o['type'] = 'enum'
            if all(c.isdigit() for c in o['choices']):     # e.g. indent_with_tabs: a bounded number shown as a choice
                o['type'] = 'num'
                o['min'], o['max'] = min(map(int, o['choices'])), max(map(int, o['choices']))
                o['choices'] = None
        elif et == 'boolean':
            o['name'] = d['TrueFalse'].split('=')[0]
            o['choices'] = ['true', 'false']
            o['type'] = 'bool'
        elif et == 'numeric':
            o['name'] = d['CallName'].strip('"').rstrip('=')
            o['min'] = int(d['MinVal']) if d.get('MinVal') else None
            o['max'] = int(d['MaxVal']) if d.get('MaxVal') else None
            o['type'] = 'num'
        elif et == 'string':
            o['name'] = d['CallName'].strip('"').rstrip('=')
            o['type'] = 'str'
        else:
            continue
        opts.append(o)
    return opts


def by_name(kind='fast'):
    return {o['name']: o for o in load(kind)}


IARF = ['ignore', 'add', 'remove', 'force']


def is_iarf(o):
    return o['type'] == 'enum' and sorted(o['choices']) == sorted(IARF)


# ------------------------------------------------------------------------------------------ classes
LEX = set('''string_escape_char string_escape_char2 string_replace_tab_chars tok_split_gte disable_processing_nl_cont
disable_processing_cmt enable_processing_cmt processing_cmt_as_regex enable_digraphs pp_ignore_define_body
use_form_feed_no_more_as_whitespace_character input_tab_size'''.split())
ENC = set('newlines utf8_bom utf8_byte utf8_force'.split())
FILE = set('''cmt_insert_file_header cmt_insert_file_footer cmt_insert_func_header cmt_insert_class_header
cmt_insert_oc_msg_header cmt_reflow_fold_regex_file include_category_0 include_category_1 include_category_2'''.split())
DEBUG_PREFIX = ('debug_',)
DEBUG = set('set_numbering_for_html_output'.split())
CMT_EXTRA = set('''sp_cmt_cpp_start sp_cmt_cpp_pvs sp_cmt_cpp_lint sp_cmt_cpp_region sp_cmt_cpp_doxygen sp_cmt_cpp_qttr
indent_col1_comment indent_col1_multi_string_literal'''.split())
# options that are documented to change tokens although they are not named mod_ (they rewrite text)
MOD_EXTRA = set('''nl_remove_extra_newlines sp_angle_shift sp_permit_cpp11_shift'''.split())


def klass(name):
    if name.startswith(DEBUG_PREFIX) or name in DEBUG:
        return 'DEBUG'
    if name in LEX:
        return 'LEX'
    if name in ENC:
        return 'ENC'
    if name in FILE:
        return 'FILE'
    if name.startswith('mod_'):
        return 'MOD'
    if name.startswith('cmt_') or name in CMT_EXTRA:
        return 'CMT'
    if name.startswith('warn_'):
        return 'WARN'
    return 'WS'


def ws_options(kind='fast'):
    return [o for o in load(kind) if klass(o['name']) == 'WS' and o['type'] != 'str']


# options whose count must not exceed nl_max when nl_max > 0 (see src/uncrustify.cpp, option check)
def values(o, wide=False):
    """boundary / enumerated values of an option (in range)"""
    if o['choices']:
        return list(o['choices'])
    if o['type'] == 'num':
        lo, hi = o['min'], o['max']
        n = o['name']
        if n == 'code_width':
            return ['0', '40', '60', '80', '120']
        if lo is None:
            lo = 0
        if hi is None or hi > 64:
            hi2 = lo + 16
            vs = {lo, lo + 1, lo + 2, lo + 4, hi2}
            if hi is not None and wide:
                vs.add(hi)
        else:
            vs = {lo, lo + 1, (lo + hi) // 2, hi}
        try:
            vs.add(int(o['default']))
        except ValueError:
            pass
        return [str(v) for v in sorted(vs)]
    return []


def draw_value(rng, o):
    if o['choices']:
        return rng.choice(o['choices'])
    lo = o['min'] if o['min'] is not None else 0
    hi = o['max'] if o['max'] is not None else lo + 16
    if o['name'] == 'code_width':
        return str(rng.choice([0, 0, 0, 40, 60, 80, 100, 120]))
    if hi - lo > 64:
        hi = lo + 16
    return str(rng.randint(lo, hi))


def cfg_text(d):
    return ''.join('%s=%s\n' % (k, v) for k, v in d.items())


def random_cfg(rng, classes=('WS',), density=0.05, exclude=(), kind='fast', pin=None):
    """dict name->value; respects the nl_max rule by not drawing nl_max together with larger counts"""
    d = {}
    for o in load(kind):
        n = o['name']
        if o['type'] == 'str' or klass(n) not in classes or n in exclude:
            continue
        if rng.random() > density:
            continue
        d[n] = draw_value(rng, o)
    if pin:
        d.update(pin)
    fix_nl_max(d)
    return d


NL_COUNT_PREFIX = ('nl_before_', 'nl_after_', 'nl_between_', 'nl_comment_', 'nl_around_', 'nl_inside_', 'nl_func_var_def_blk',
                   'nl_typedef_blk', 'nl_var_def_blk', 'nl_start_of_file_min', 'nl_end_of_file_min', 'nl_max_blank_in_func',
                   'nl_inside_empty_func', 'nl_before_func', 'nl_after_func', 'nl_after_struct', 'nl_before_class',
                   'nl_after_class', 'nl_before_namespace', 'nl_after_namespace', 'nl_inside_namespace')


def fix_nl_max(d, kind='fast'):
    """honour the documented rule: with nl_max > 0 no numeric nl_ count option may exceed it"""
    try:
        m = int(d.get('nl_max', 0))
    except ValueError:
        return d
    if m <= 0:
        return d
    reg = by_name(kind)
    for n in list(d):
        o = reg.get(n)
        if n != 'nl_max' and o and o['type'] == 'num' and n.startswith('nl_'):
            try:
                if int(d[n]) > m:
                    d[n] = str(m)
            except ValueError:
                pass
    return d
