"""Build /repo's *current working tree* into /verif/.build/<kind> (incremental, flock-serialised).

kinds
  fast  gcc, the repository's own RelWithDebInfo flags + -DUNCRUSTIFY_VERIF
  san   clang, -O1 -g -DNDEBUG -fsanitize=address,undefined (no recover) + -DUNCRUSTIFY_VERIF
"""
import fcntl
import os
import subprocess
import sys

REPO = os.environ.get('VERIF_REPO', '/repo')
ROOT = os.path.dirname(os.path.dirname(os.path.abspath(__file__)))
# development aid: VERIF_REPO=<scratch worktree> builds into its own tree so that a seeded change can be tried while /repo is in use
BUILD = os.path.join(ROOT, '.build' if REPO == '/repo' else '.build-' + ''.join(c if c.isalnum() else '_' for c in REPO))
OUT = os.environ.get('VERIF_OUT', ROOT)      # where evidence/ and replays/ are written (development aid)
GUARD = 'UNCRUSTIFY_VERIF'

KINDS = {
    'fast': ['-DCMAKE_BUILD_TYPE=RelWithDebInfo',
             '-DCMAKE_CXX_FLAGS=-Wno-error -D' + GUARD],
    'san': ['-DCMAKE_BUILD_TYPE=RelWithDebInfo',
            '-DCMAKE_C_COMPILER=clang', '-DCMAKE_CXX_COMPILER=clang++',
            '-DCMAKE_CXX_FLAGS_RELWITHDEBINFO=-O1 -g -DNDEBUG',
            '-DCMAKE_CXX_FLAGS=-Wno-error -D' + GUARD +
            ' -fsanitize=address,undefined -fno-sanitize-recover=undefined -fno-omit-frame-pointer',
            '-DCMAKE_EXE_LINKER_FLAGS=-fsanitize=address,undefined'],
}


KINDS['fuzz'] = ['-DCMAKE_BUILD_TYPE=RelWithDebInfo', '-DCMAKE_C_COMPILER=clang', '-DCMAKE_CXX_COMPILER=clang++', '-DCMAKE_EXPORT_COMPILE_COMMANDS=ON',
                 '-DCMAKE_CXX_FLAGS_RELWITHDEBINFO=-O1 -g -DNDEBUG',
                 '-DCMAKE_CXX_FLAGS=-Wno-error -D' + GUARD + ' -fsanitize=fuzzer-no-link,address,undefined -fno-sanitize-recover=undefined',
                 '-DCMAKE_EXE_LINKER_FLAGS=-fsanitize=address,undefined']


class BuildError(Exception):
    pass


def binary(kind='fast'):
    return os.path.join(BUILD, kind, 'uncrustify')


def ensure(kind='fast', quiet=True):
    """(Re)build and return the path of the binary.  Raises BuildError."""
    d = os.path.join(BUILD, kind)
    os.makedirs(d, exist_ok=True)
    lock = open(os.path.join(BUILD, kind + '.lock'), 'w')
    fcntl.flock(lock, fcntl.LOCK_EX)
    try:
        if not os.path.exists(os.path.join(d, 'build.ninja')):
            r = subprocess.run(['cmake', '-G', 'Ninja', '-S', REPO, '-B', d] + KINDS[kind],
                               capture_output=True, text=True)
            if r.returncode != 0:
                raise BuildError('cmake configure failed (%s):\n%s\n%s' % (kind, r.stdout[-3000:], r.stderr[-3000:]))
        r = subprocess.run(['cmake', '--build', d, '-j', str(os.cpu_count() or 8), '--target', 'uncrustify'],
                           capture_output=True, text=True)
        if r.returncode != 0:
            raise BuildError('build failed (%s):\n%s\n%s' % (kind, r.stdout[-6000:], r.stderr[-3000:]))
    finally:
        fcntl.flock(lock, fcntl.LOCK_UN)
        lock.close()
    b = binary(kind)
    if not os.path.exists(b):
        raise BuildError('no binary at ' + b)
    return b


if __name__ == '__main__':
    for k in sys.argv[1:] or ['fast', 'san']:
        print(k, ensure(k))


def ensure_fuzzer():
    """build the libFuzzer target .build/fuzz/unc_fuzz from /verif/fuzz/harness.cpp + all uncrustify objects (main renamed)"""
    import json
    import shlex
    ensure('fuzz')
    d = os.path.join(BUILD, 'fuzz')
    cc = json.load(open(os.path.join(d, 'compile_commands.json')))
    entry = next(e for e in cc if e['file'].endswith('/src/uncrustify.cpp'))
    argv = shlex.split(entry['command'])
    # strip "-o X -c file"
    flags = []
    skip = 0
    for a in argv[1:]:
        if skip:
            skip -= 1
            continue
        if a in ('-o', '-c', '-MF', '-MT'):
            skip = 1
            continue
        if a == '-MD':
            continue
        flags.append(a)
    out = os.path.join(d, 'unc_fuzz')
    main_o = os.path.join(d, 'unc_main_renamed.o')
    harness_o = os.path.join(d, 'harness.o')
    harness_src = os.path.join(ROOT, 'fuzz', 'harness.cpp')
    objs = subprocess.run(['ninja', '-C', d, '-t', 'targets', 'all'], capture_output=True, text=True).stdout
    objs = [os.path.join(d, l.split(':')[0]) for l in objs.splitlines() if l.split(':')[0].endswith('.o') and 'uncrustify.cpp.o' not in l]
    objs = [o for o in objs if os.path.exists(o)]
    for cmd in ([argv[0]] + flags + ['-Dmain=unc_cli_main', '-c', entry['file'], '-o', main_o],
                [argv[0]] + flags + ['-I', os.path.join(REPO, 'src'), '-c', harness_src, '-o', harness_o],
                [argv[0], '-fsanitize=fuzzer,address,undefined', '-Wl,--wrap=exit', '-o', out, harness_o, main_o] + objs):
        r = subprocess.run(cmd, capture_output=True, text=True, cwd=entry['directory'])
        if r.returncode != 0:
            raise BuildError('fuzzer build failed: %s\n%s' % (' '.join(cmd)[:300], r.stderr[-3000:]))
    return out
