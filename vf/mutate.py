"""Mutators of source bytes (seeded): line / token / byte level, truncation, EOF-inside-construct."""
import re

TOKEN_RE = re.compile(rb'[A-Za-z_][A-Za-z_0-9]*|\.?\d(?:[eEpP][+-]|[\'\w.])*|[{}()\[\];,<>=+\-*/&|!~^%?:.#]')
BRACKETS = [b'{', b'}', b'(', b')', b'[', b']']
ANGLES = [b'<', b'>']
TAILS = [b'#define MAX3(a, b,', b'typedef void (*fn)(int,', b'int f(int a,', b'x = (a + (b', b'struct S { int a;', b'enum E { A,', b'switch (x) { case 1:',
         b'#include <', b'#if defined(', b'template <typename T, ', b'auto l = [=](int a', b'/* unterminated', b'"unterminated', b"'u", b'R"x(raw', b'#if 1\n', b'#define X \\', b'#define X(a', b'//x\\', b'(', b'{', b'[',
         b'template<', b'@interface', b'case', b'if (', b'do', b'else', b'\\', b'?', b'::', b'->', b'#', b'@"', b'$"', b'`']
INSERTS = [b';', b'{', b'}', b'(', b')', b'#', b'\\', b'"', b"'", b'/*', b'*/', b'//', b'<', b'>', b'::', b'@', b'$', b'\x00', b'\xff',
           b'\xc3', b'\t', b'\r', b'\x0c', b'else', b'case', b'template', b'operator', b'#define', b'#endif', b'#if', b'[[', b']]']


def mutate(src, rng, n=1, kinds=None):
    """apply n seeded mutations; returns (bytes, [names])"""
    names = []
    for _ in range(n):
        k = rng.choice(kinds or ['del_line', 'dup_line', 'swap_lines', 'del_tok', 'dup_tok', 'swap_tok', 'ins_bracket', 'del_bracket',
                                 'trunc_line', 'trunc_byte', 'tail', 'ins', 'flip', 'join_lines'])
        lines = src.split(b'\n')
        toks = None
        if k.endswith('_tok') or k.endswith('_bracket'):
            toks = list(TOKEN_RE.finditer(src))
        if k == 'del_line' and len(lines) > 1:
            i = rng.randrange(len(lines))
            del lines[i]
            src = b'\n'.join(lines)
        elif k == 'dup_line' and lines:
            i = rng.randrange(len(lines))
            lines.insert(i, lines[i])
            src = b'\n'.join(lines)
        elif k == 'swap_lines' and len(lines) > 2:
            i = rng.randrange(len(lines) - 1)
            lines[i], lines[i + 1] = lines[i + 1], lines[i]
            src = b'\n'.join(lines)
        elif k == 'join_lines' and len(lines) > 2:
            i = rng.randrange(len(lines) - 1)
            lines[i:i + 2] = [lines[i] + b' ' + lines[i + 1]]
            src = b'\n'.join(lines)
        elif k == 'del_tok' and toks:
            m = rng.choice(toks)
            src = src[:m.start()] + src[m.end():]
        elif k == 'dup_tok' and toks:
            m = rng.choice(toks)
            src = src[:m.end()] + b' ' + m.group(0) + src[m.end():]
        elif k == 'swap_tok' and toks and len(toks) > 2:
            i = rng.randrange(len(toks) - 1)
            a, b = toks[i], toks[i + 1]
            src = src[:a.start()] + b.group(0) + src[a.end():b.start()] + a.group(0) + src[b.end():]
        elif k == 'ins_bracket':
            # at the end of a line, separated by a blank: an insertion inside a token only manufactures new (garbage) tokens
            ends = [m.start() for m in re.finditer(rb'\n', src)] or [len(src)]
            i = rng.choice(ends)
            src = src[:i] + b' ' + rng.choice(BRACKETS) + src[i:]
        elif k == 'del_bracket' and toks:
            bs = [m for m in toks if m.group(0) in BRACKETS]
            if bs:
                m = rng.choice(bs)
                src = src[:m.start()] + src[m.end():]
        elif k == 'trunc_line' and len(lines) > 1:
            src = b'\n'.join(lines[:rng.randrange(1, len(lines))]) + (b'\n' if rng.random() < 0.5 else b'')
        elif k == 'trunc_byte' and len(src) > 1:
            src = src[:rng.randrange(1, len(src))]
        elif k == 'tail':
            src = src + rng.choice(TAILS)
        elif k == 'ins':
            i = rng.randrange(len(src) + 1)
            src = src[:i] + rng.choice(INSERTS) + src[i:]
        elif k == 'flip' and src:
            i = rng.randrange(len(src))
            src = src[:i] + bytes([src[i] ^ (1 << rng.randrange(8))]) + src[i + 1:]
        names.append(k)
    return src, names
