"""Token relations shared by C02 / C03 / C04 / C17 / C19 / C20: the two independent views of "the token stream".

view A  vf.clex (independent lexer; C, C++, ObjC, Java)
view B  the UNCRUSTIFY_VERIF hook dump `tok0` (uncrustify's tokenizer, all languages) of the input and of the re-tokenised
        output, and `preout` (the chunk list actually written).
"""
import json
import re

from . import clex, corpus, run

NL_TYPES = ('NEWLINE', 'NL_CONT')


def is_cmt(t):
    return t.startswith('COMMENT')

LIT_TYPES = ('STRING', 'STRING_MULTI', 'CHAR')     # tok0 types (before combine)


class Chunk:
    __slots__ = ('type', 'parent', 'line', 'col', 'col_end', 'column', 'pp', 'nl', 'level', 'blevel', 'text')

    def __init__(self, a):
        (self.type, self.parent, self.line, self.col, self.col_end, self.column, self.pp, self.nl, self.level, self.blevel,
         self.text) = a

    def __repr__(self):
        return '%s(%r @%d:%d)' % (self.type, self.text, self.line, self.col)


def parse_dump(b):
    """bytes of a hook dump -> list of Chunk (header line skipped)"""
    out = []
    if not b:
        return out
    for ln in b.split(b'\n')[1:]:
        if ln:
            out.append(Chunk(json.loads(ln)))
    return out


def angle_close_positions(preout):
    """(line, col) -> length, for every '>'-only chunk of the list that was written (pieces of a split '>>' keep their
    orig position); lets a '>>'/'>>>' of the tokenizer view be segmented the way the passes finally typed it"""
    return {(c.line, c.col): len(c.text) for c in preout if c.text and set(c.text) == {'>'}}


EOD = ('<EOD>', 1)


def code_stream(tok0, angle_pos=None):
    """[(text, in_preproc)] without newlines/comments; '<EOD>' after the last token of each directive.
    '>>'/'>>>' chunks are split into '>' pieces only where the passes of the same run typed them as angle closers;
    '[]' is split (the tokenizer joins adjacent brackets)."""
    out = []
    prev_pp = 0
    for c in tok0:
        t = c.type
        if t in NL_TYPES:
            if t == 'NEWLINE' and prev_pp:
                out.append(EOD)
                prev_pp = 0
            continue
        if is_cmt(t):
            continue
        if t in ('VBRACE_OPEN', 'VBRACE_CLOSE', 'VSEMICOLON') and c.text == '':
            continue
        prev_pp = c.pp
        tx = c.text
        if tx in ('>>', '>>>') and angle_pos and angle_pos.get((c.line, c.col), len(tx)) != len(tx):
            col, end = c.col, c.col + len(tx)
            while col < end:
                n = min(angle_pos.get((c.line, col), end - col), end - col)
                out.append(('>' * n, c.pp))
                col += n
        elif t == 'STRING' and tx.startswith('""_') and out and out[-1][0] == 'operator':
            out.append(('""', c.pp))
            out.append((tx[2:], c.pp))
        elif tx == '[]':
            out.append(('[', c.pp))
            out.append((']', c.pp))
        elif t == 'IGNORED':
            out.append(('<IGN>' + tx.strip(), c.pp))
        else:
            if '\r' in tx:
                tx = tx.replace('\r\n', '\n').replace('\r', '\n')      # terminators inside a chunk follow `newlines` (C08)
            if t not in LIT_TYPES and not t.startswith('STRING') and (' ' in tx or '\t' in tx):
                tx = ' '.join(tx.split())        # blanks inside a combined non-literal chunk ('[ [ nodiscard ] ]', '#pragma' body) are layout
            out.append((tx, c.pp))
    if prev_pp:
        out.append(EOD)
    return out


def nonspace_chars(chunks):
    s = []
    for c in chunks:
        if c.type in NL_TYPES or is_cmt(c.type):
            continue
        s.append(re.sub(r'\s+', '', c.text))
    return ''.join(s)


def comments_tok0(tok0):
    out = []
    for c in tok0:
        if is_cmt(c.type):
            kind = 'cmt_cpp' if c.text.startswith('//') else 'cmt_c'
            out.append(clex.norm_comment((kind, c.text)))
    return out


def literals_tok0(tok0):
    return [c.text for c in tok0 if c.type in LIT_TYPES]


# ------------------------------------------------------------------------------------------------ diff description
KW = set('''if else for while do switch case default return break continue goto sizeof struct union enum typedef static
extern const volatile int long short unsigned signed char float double void class namespace template typename public
private protected virtual operator new delete try catch throw using this'''.split())


def _abbr(t):
    if isinstance(t, tuple):
        t = t[1] if t[0] in ('id', 'num', 'str', 'chr', 'punct', 'hdr', 'other', 'dir_start', 'dir_end') else t[0]
        if t == '':
            return '<DIR>'
    if t in KW or t in ('<EOD>', '<DIR>'):
        return t
    if re.match(r'^[A-Za-z_$@][\w$]*$', t):
        return 'ID'
    if re.match(r'^\.?\d', t):
        return 'NUM'
    if t[:1] in '"\'' or re.match(r'^(u8|u|U|L)?R?"', t):
        return 'LIT'
    if t.startswith('<IGN>'):
        return 'IGN'
    return t[:12]


def text_of(t):
    if isinstance(t, tuple):
        if t[0] in ('dir_start',):
            return '<DIR>'
        if t[0] in ('dir_end',):
            return '<EOD>'
        if t[0] in ('id', 'num', 'str', 'chr', 'punct', 'hdr', 'other'):
            return t[1]
        return t[0]
    return t


def first_diff(a, b):
    """a, b: token lists.  None if equal, else a descriptor dict (class, abbreviated neighbourhood, index)"""
    if a == b:
        return None
    n = min(len(a), len(b))
    i = next((k for k in range(n) if a[k] != b[k]), n)
    ta = [text_of(x) for x in a[max(0, i - 1):i + 3]]
    tb = [text_of(x) for x in b[max(0, i - 1):i + 3]]
    off = 1 if i > 0 else 0
    A = ta[off:]
    B = tb[off:]
    cls = 'other'
    if A and B and text_of(a[i]) == text_of(b[i]):
        cls = 'preproc-flag'
    elif (A and A[0] in ('<EOD>', '<DIR>')) or (B and B[0] in ('<EOD>', '<DIR>')):
        cls = 'directive-boundary'
    elif len(A) >= 2 and B and B[0] == A[0] + A[1]:
        cls = 'fuse'
    elif len(B) >= 2 and A and A[0] == B[0] + B[1]:
        cls = 'split'
    elif len(A) >= 2 and B and B[0].startswith(A[0]) and len(B[0]) > len(A[0]):
        cls = 'fuse'
    elif len(B) >= 2 and A and A[0].startswith(B[0]) and len(A[0]) > len(B[0]):
        cls = 'split'
    elif i >= len(b) or (len(A) >= 2 and B and A[1] == B[0]):
        cls = 'drop'
    elif i >= len(a) or (len(B) >= 2 and A and B[1] == A[0]):
        cls = 'insert'
    elif len(A) >= 2 and len(B) >= 2 and A[0] == B[1] and A[1] == B[0]:
        cls = 'swap'
    return {'class': cls, 'at': [_abbr(x) for x in A[:2]], 'got': [_abbr(x) for x in B[:2]], 'index': i,
            'in': ta, 'out': tb, 'first_in': A[0] if A else '', 'first_out': B[0] if B else ''}


def diff_sig(d):
    return '%s %s -> %s' % (d['class'], ' '.join(d['at']), ' '.join(d['got']))


# ------------------------------------------------------------------------------------------------ a judged execution
class Exec:
    """one formatted case with everything the token checks need"""
    __slots__ = ('src', 'lang', 'cfg', 'r1', 'out', 'tok_in', 'pre', 'r2', 'tok_out', 'pre2', 'accepted', 'status', 'timeout')


def execute(src, lang, cfg, retok=True, kind='fast', args=()):
    e = Exec()
    e.src, e.lang, e.cfg = src, lang, cfg
    r1, d1 = run.fmt(src, lang, cfg, dump=True, kind=kind, args=args)
    e.r1 = r1
    e.timeout = r1.timeout
    e.status = r1.status
    e.accepted = r1.ok
    e.out = r1.out
    e.tok_in = parse_dump(d1.get('tok0'))
    e.pre = parse_dump(d1.get('preout'))
    e.r2 = None
    e.tok_out = e.pre2 = None
    if e.accepted and retok:
        r2, d2 = run.fmt(r1.out, lang, '', dump=True, kind=kind, args=args)
        e.r2 = r2
        e.tok_out = parse_dump(d2.get('tok0'))
        e.pre2 = parse_dump(d2.get('preout'))
    return e


def lex_or_none(data, lang, gcc_splice=False):
    try:
        return clex.lex(data, lang, gcc_splice)
    except clex.LexError:
        return None
    except RecursionError:
        return None


def rel_tok0(e):
    """tok0(in) ~ tok0(out): code stream with preproc flags and end-of-directive markers"""
    if e.tok_out is None or not e.tok_out and e.tok_in:
        return None
    a = code_stream(e.tok_in, angle_close_positions(e.pre))
    b = code_stream(e.tok_out, angle_close_positions(e.pre2 or []))
    return first_diff(a, b)


def rel_preout(e):
    """the non-blank characters of the chunk list written == those of the tokenizer's list (drops/dups/reorders in passes)"""
    if not e.pre:
        return None
    a = nonspace_chars(e.tok_in)
    b = nonspace_chars(e.pre)
    if a == b:
        return None
    i = next((k for k in range(min(len(a), len(b))) if a[k] != b[k]), min(len(a), len(b)))
    return {'class': 'chars', 'at': [a[max(0, i - 12):i + 12]], 'got': [b[max(0, i - 12):i + 12]], 'index': i,
            'in': a[max(0, i - 40):i + 40], 'out': b[max(0, i - 40):i + 40]}


def rel_clex_code(e, lin=None, lout=None):
    if e.lang not in corpus.CFAMILY:
        return None, None, None
    lin = lin if lin is not None else lex_or_none(e.src, e.lang)
    if lin is None:
        return None, None, None
    lout = lout if lout is not None else lex_or_none(e.out, e.lang)
    if lout is None:
        return {'class': 'unlexable-output', 'at': [], 'got': [], 'index': 0, 'in': [], 'out': []}, lin, None
    d = first_diff(clex.code_stream(lin), clex.code_stream(lout))
    if d is not None and (b'\\ ' in e.src or b'\\\t' in e.src):
        # backslash + blanks + newline: a splice for gcc/clang, not for ISO C.  A case is judged failing only if it fails under
        # both conventions (uncrustify itself follows gcc inside directives and ISO inside // comments).
        g1, g2 = lex_or_none(e.src, e.lang, True), lex_or_none(e.out, e.lang, True)
        if g1 is not None and g2 is not None and clex.code_stream(g1) == clex.code_stream(g2):
            return None, lin, lout
    return d, lin, lout
