"""Independent reader of the config-dump format written by --update-config[-with-doc]."""
import re


def parse(text):
    """returns (values: dict name -> value string, extras: list of non-assignment lines (types, set, macro-*, file_ext))"""
    if isinstance(text, bytes):
        text = text.decode('utf-8', 'surrogateescape')
    vals = {}
    extras = []
    for line in re.split(r'\r\n|\r|\n', text):
        s = line.strip()
        if not s or s.startswith('#'):
            continue
        m = re.match(r'^([A-Za-z_][A-Za-z_0-9]*)\s*=\s*(.*)$', s)
        if m:
            name, rest = m.group(1), m.group(2)
            if rest.startswith('"'):
                # quoted string, backslash escapes the next character
                out = []
                i = 1
                closed = False
                while i < len(rest):
                    c = rest[i]
                    if c == '\\' and i + 1 < len(rest):
                        out.append(rest[i + 1])
                        i += 2
                        continue
                    if c == '"':
                        closed = True
                        break
                    out.append(c)
                    i += 1
                vals[name] = ('str', ''.join(out), closed, rest[i + 1:].strip())
            else:
                vals[name] = ('tok', rest.split()[0] if rest.split() else '', True, '')
        else:
            extras.append(' '.join(s.split()))
    return vals, extras


def plain(vals):
    return {k: v[1] for k, v in vals.items()}
