"""Check context: evidence counters, known-findings ledger, violation reporting, worker pool."""
import base64
import collections
import hashlib
import json
import multiprocessing as mp
import os
import re
import sys
import time
import traceback

from . import build, run

ROOT = build.ROOT
OUT = build.OUT
DEFAULT_SEED = 20260928
NPROC = int(os.environ.get('VERIF_NPROC', '0')) or min(16, os.cpu_count() or 4)


def sha(*parts):
    h = hashlib.sha256()
    for p in parts:
        if isinstance(p, str):
            p = p.encode('utf-8', 'surrogateescape')
        elif not isinstance(p, (bytes, bytearray)):
            p = json.dumps(p, sort_keys=True, default=str).encode()
        h.update(p)
        h.update(b'\0')
    return h.hexdigest()


def subseed(seed, *parts):
    return int(sha(str(seed), *[str(p) for p in parts])[:15], 16)


def b64(b):
    return base64.b64encode(b).decode()


def unb64(s):
    return base64.b64decode(s)


def preview(b, n=400):
    if isinstance(b, bytes):
        b = b.decode('utf-8', 'replace')
    return b if len(b) <= n else b[:n] + '…(%d chars)' % len(b)


# ----------------------------------------------------------------------------------------------- ledger
class Ledger:
    """known_findings.json: committed, never written at run time.

    entry: {"id", "property", "status": "known"|"fixed", "what", "match": {...}, "commit"?}
    A signature `sig` (dict) matches an entry when every key of entry.match agrees:
      'opts'   : dict -> every name=value must be in sig['opts']
      'opts_any': list of dicts -> at least one dict is contained in sig['opts']
      'opts_has': list of option names that must all be set in sig['opts'] (any value)
      'detail.X': matched against sig['_detail']['X'] (equal / 're:' regex / list membership)
      other    : equal, or (string starting with 're:') regex search on str(sig[key]),
                 or (list) membership
    Only status == "known" entries match; "fixed" entries suppress nothing.
    """

    def __init__(self, prop):
        self.prop = prop
        p = os.path.join(ROOT, 'known_findings.json')
        self.entries = []
        if os.path.exists(p):
            for e in json.load(open(p))['findings']:
                if e['property'] == prop and e['id'] not in os.environ.get('VERIF_IGNORE_KNOWN', '').split(','):
                    self.entries.append(e)       # (VERIF_IGNORE_KNOWN: development aid - re-surface a listed finding)

    @staticmethod
    def _m(want, got):
        if isinstance(want, str) and want.startswith('re:'):
            return got is not None and re.search(want[3:], got if isinstance(got, str) else json.dumps(got)) is not None
        if isinstance(want, list) and not isinstance(got, list):
            return got in want
        return want == got

    def match(self, sig):
        for e in self.entries:
            if e.get('status') != 'known':
                continue
            ok = True
            for k, want in e['match'].items():
                if k == 'opts':
                    so = sig.get('opts') or {}
                    if not all(str(so.get(n)) == str(v) for n, v in want.items()):
                        ok = False
                elif k.startswith('detail.'):
                    if not self._m(want, (sig.get('_detail') or {}).get(k[7:])):
                        ok = False
                elif k == 'opts_has':
                    so = sig.get('opts') or {}
                    if not all(n in so for n in want):
                        ok = False
                elif k == 'opts_any':
                    so = sig.get('opts') or {}
                    if not any(all(str(so.get(n)) == str(v) for n, v in alt.items()) for alt in want):
                        ok = False
                elif not self._m(want, sig.get(k)):
                    ok = False
                if not ok:
                    break
            if ok:
                return e
        return None

    def known(self):
        return [e for e in self.entries if e.get('status') == 'known']


# ----------------------------------------------------------------------------------------------- context
class Ctx:
    def __init__(self, prop, tier, seed, level='exploration'):
        self.prop, self.tier, self.seed, self.level = prop, tier, seed, level
        # seed of the *fixed universes* (which corpus files get which configuration, which truncations / mutants are taken).
        # It does not move with VERIF_SEED: the fixed part of both tiers is a regression-style universe that was burnt in once (every
        # alarm triaged into a fix or a ledger entry); VERIF_SEED drives the generated programs, layouts, regions and histories.
        self.useed = DEFAULT_SEED
        self.t0 = time.time()
        self.ledger = Ledger(prop)
        self.evaluations = 0
        self.nontrivial = set()
        self.samples = []
        self.hist = collections.Counter()
        self.counts = collections.Counter()
        self.violations = []        # (sig, replay_path)
        self.known_hits = collections.Counter()
        self.known_printed = set()
        self.rule = ''
        self.assumptions = []
        self.extra = {}
        self.exhaustive = None
        self.infra_errors = []

    # ---- accounting
    def case(self, key=None, nontrivial=False, classes=()):
        self.evaluations += 1
        if nontrivial and key is not None:
            self.nontrivial.add(key if isinstance(key, str) else sha(key))
        for c in classes:
            self.hist[c] += 1

    def sample(self, s, cap=8):
        if len(self.samples) < cap:
            self.samples.append(s)

    def merge(self, part):
        """merge a worker's partial result dict (see Part)"""
        self.evaluations += part['evaluations']
        self.nontrivial.update(part['nontrivial'])
        self.hist.update(part['hist'])
        self.counts.update(part['counts'])
        for s in part['samples']:
            self.sample(s)
        for sig, rep in part['failures']:
            self.failure(sig, rep)
        self.infra_errors.extend(part.get('infra', []))

    # ---- failures
    def failure(self, sig, replay):
        """a confirmed failing case.  sig: dict signature; replay: dict self-contained replay record"""
        sig = dict(sig)
        sig.setdefault('property', self.prop)
        e = self.ledger.match(sig)
        if e is not None:
            self.known_hits[e['id']] += 1
            if e['id'] not in self.known_printed:
                self.known_printed.add(e['id'])
                print('KNOWN-FINDING: property=%s %s [%s]' % (self.prop, e['what'], e['id']), flush=True)
            return 'known'
        key = sha({k: v for k, v in sig.items() if not k.startswith('_')})
        if any(k == key for k, _ in self.violations):
            return 'dup'
        d = os.path.join(OUT, 'replays', self.prop)
        os.makedirs(d, exist_ok=True)
        path = os.path.join(d, key[:16] + '.json')
        rec = {'property': self.prop, 'signature': sig, 'replay': replay}
        with open(path, 'w') as f:
            json.dump(rec, f, indent=1, default=str)
        self.violations.append((key, path))
        print('VIOLATION property=%s replay=%s' % (self.prop, path), flush=True)
        print('  signature: %s' % json.dumps(sig, default=str)[:1500], flush=True)
        return 'new'

    def announce_known(self, e):
        """print the KNOWN-FINDING line for ledger entry e (replay tier confirmed it still fails)"""
        if e['id'] not in self.known_printed:
            self.known_printed.add(e['id'])
            print('KNOWN-FINDING: property=%s %s [%s]' % (self.prop, e['what'], e['id']), flush=True)

    # ---- finish
    def finish(self):
        wall = time.time() - self.t0
        cov = {'evaluations': self.evaluations, 'distinct_nontrivial': len(self.nontrivial), 'rule': self.rule,
               'samples': self.samples, 'classes': dict(self.hist.most_common(80)), 'counts': dict(self.counts),
               'known_finding_hits': dict(self.known_hits)}
        if self.exhaustive is not None:
            cov['exhaustive'] = self.exhaustive
        cov.update(self.extra)
        ev = {'property_id': self.prop, 'tier': self.tier, 'seed': self.seed, 'level': self.level, 'coverage': cov,
              'assumptions': self.assumptions, 'wall_s': round(wall, 2), 'violations': len(self.violations)}
        os.makedirs(os.path.join(OUT, 'evidence'), exist_ok=True)
        with open(os.path.join(OUT, 'evidence', self.prop + '.json'), 'w') as f:
            json.dump(ev, f, indent=1, default=str)
        print('%s tier=%s seed=%d evaluations=%d nontrivial=%d known_hits=%d violations=%d wall=%.1fs' % (
            self.prop, self.tier, self.seed, self.evaluations, len(self.nontrivial), sum(self.known_hits.values()),
            len(self.violations), wall), flush=True)
        if self.violations:
            return 1
        if self.infra_errors:
            print('INFRASTRUCTURE ERROR (not a verdict): %s' % self.infra_errors[:3], flush=True)
            return 2
        return 0


class Part:
    """accumulator used inside worker processes; returned as a plain dict"""

    def __init__(self):
        self.d = {'evaluations': 0, 'nontrivial': set(), 'hist': collections.Counter(), 'counts': collections.Counter(),
                  'samples': [], 'failures': [], 'infra': []}

    def case(self, key=None, nontrivial=False, classes=()):
        self.d['evaluations'] += 1
        if nontrivial and key is not None:
            self.d['nontrivial'].add(key if isinstance(key, str) else sha(key))
        for c in classes:
            self.d['hist'][c] += 1

    def count(self, k, n=1):
        self.d['counts'][k] += n

    def sample(self, s, cap=3):
        if len(self.d['samples']) < cap:
            self.d['samples'].append(s)

    def fail(self, sig, replay):
        self.d['failures'].append((sig, replay))

    def infra(self, msg):
        self.d['infra'].append(msg)

    def result(self):
        return self.d


# ----------------------------------------------------------------------------------------------- pool
def _worker(args):
    fn, item = args
    try:
        return fn(item)
    except Exception:
        p = Part()
        p.infra('worker exception: ' + traceback.format_exc()[-1500:])
        return p.result()
    finally:
        pass


def _init_worker():
    import atexit
    atexit.register(run.cleanup)


def pmap(fn, items, nproc=None, chunksize=1):
    """map fn over items in worker processes; fn returns Part.result() dicts (or anything picklable)."""
    items = list(items)
    nproc = nproc or NPROC
    if nproc <= 1 or len(items) <= 1:
        for it in items:
            yield _worker((fn, it))
        return
    ctx = mp.get_context('fork')
    with ctx.Pool(nproc, initializer=_init_worker) as pool:
        for r in pool.imap_unordered(_worker, [(fn, it) for it in items], chunksize=chunksize):
            yield r
    # scratch dirs of pool workers are removed by the parent sweep below
    sweep_scratch()


def sweep_scratch():
    """remove scratch roots of dead processes"""
    for base in ('/dev/shm', os.path.join(ROOT, '.work')):
        if not os.path.isdir(base):
            continue
        for n in os.listdir(base):
            m = re.match(r'vf-(\d+)-', n)
            if m and not os.path.exists('/proc/%s' % m.group(1)):
                import shutil
                shutil.rmtree(os.path.join(base, n), ignore_errors=True)


def chunks(seq, n):
    seq = list(seq)
    k = max(1, (len(seq) + n - 1) // n)
    return [seq[i:i + k] for i in range(0, len(seq), k)]


# ----------------------------------------------------------------------------------------------- replay tier
def replay_regress(ctx, replay_fn):
    """replay every committed regress/<prop>/*.json first.  Entries of fixed findings must pass (else VIOLATION);
    entries of known findings print their KNOWN-FINDING line while they still fail."""
    d = os.path.join(ROOT, 'regress', ctx.prop)
    if not os.path.isdir(d):
        return
    n = 0
    for f in sorted(os.listdir(d)):
        if not f.endswith('.json'):
            continue
        rec = json.load(open(os.path.join(d, f)))
        n += 1
        try:
            fails = replay_fn(rec['replay'])
        except Exception:
            ctx.infra_errors.append('replay of %s raised: %s' % (f, traceback.format_exc()[-800:]))
            continue
        ctx.counts['regress_replayed'] += 1
        if fails:
            ctx.counts['regress_still_failing'] += 1
            for sig, rep in fails:
                ctx.failure(sig, rep)
        elif rec.get('finding'):
            ctx.counts['regress_passing'] += 1
