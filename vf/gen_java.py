"""Java program generator (snippet templates with trivia slots, like vf.gen_cpp): one public-less top-level class per program whose
members come from the snippets below.  `§` marks a trivia slot, `¶` a statement / member start, `@` a per-instance suffix.
Every program compiles with `javac -g:none` (checked by C01 at run time: inputs that do not compile are counted, not judged).
"""
from hypothesis import strategies as st

from . import clex

HEADER = "import java.util.*;\nimport java.util.function.*;\n"

SNIPPETS = [
    # generics, nested angle brackets, shifts
    """¶static <T extends Comparable<T>> § T max@(List<? extends T> xs, § T d) {
  ¶T best = d;
  ¶for (T x : xs) § { ¶if (x.compareTo(best) > 0) § best = x; }
  ¶Map<String, List<Map<Integer, T>>> m = new HashMap<String, List<Map<Integer, T>>>();
  ¶int sh = (xs.size() >>> 1) + (xs.size() >> § 1) + (xs.size() << 2);
  ¶return sh > 1000 § ? d : best;
}
""",
    # switch, labels, do/while, ternary, char and string literals
    """¶static int sw@(int k, String s) § {
  ¶int r = 0;
  ¶outer@:
  ¶for (int i = 0; i < 3; i++) § {
    ¶switch (k + i) § {
    ¶case 1: ¶r += 'a'; ¶break;
    ¶case 2: { ¶r -= s.length(); ¶continue outer@; }
    ¶default: ¶r ^= "x\\ty".length() + '\\''; ¶break outer@;
    }
  }
  ¶do § { ¶r--; } § while (r > 100);
  ¶return r;
}
""",
    # try / catch / finally, multi-catch, try-with-resources, throw
    """¶static int tc@(int a) § throws Exception {
  ¶try § { ¶if (a < 0) § throw new IllegalStateException("neg"); ¶a++; }
  ¶catch (IllegalStateException | § IllegalArgumentException e) § { ¶a = -a; }
  ¶catch (RuntimeException e) { ¶a = 0; }
  ¶finally § { ¶a += 2; }
  ¶try (Scanner sc = new Scanner("1 2")) § { ¶a += sc.nextInt(); }
  ¶synchronized (A.class) § { ¶a--; }
  ¶return a;
}
""",
    # lambdas, method references, anonymous class, varargs, arrays
    """¶static int lam@(int n, int... rest) {
  ¶Function<Integer, Integer> f = x -> § x * n;
  ¶BiFunction<Integer, Integer, Integer> g = (x, § y) -> { ¶return x + y; };
  ¶Supplier<List<String>> sup = ArrayList::new;
  ¶Runnable r = new Runnable() § { ¶public void run() § { } };
  ¶int[] arr = new int[] { 1, § 2, 3 };
  ¶int[][] grid = new int[2][3];
  ¶r.run();
  ¶return f.apply(arr[0]) + g.apply(rest.length, § grid[1].length) + sup.get().size();
}
""",
    # annotations, inner enum / interface, instanceof, casts, final, ternary chain
    """¶@SuppressWarnings("unchecked") § ¶static Object misc@(Object o) {
  ¶final long big = 1L << 40;
  ¶if (o instanceof String) § { ¶return ((String) o).trim(); } else if (o instanceof Integer) § ¶return (long) (Integer) o + big;
  ¶return o == null § ? "null" : o.hashCode() > 0 ? "pos" § : "neg";
}
¶enum Color@ { RED, § GREEN(2), BLUE; ¶Color@() { } ¶Color@(int k) { } }
¶interface Shape@ § { ¶int area(); ¶default int twice() § { ¶return 2 * area(); } }
""",
    # double-brace initialisation, array initialisers, nested generics with wildcards
    """¶static int dbl@(int n) {
  ¶List<String> l = new ArrayList<String>() § {{ ¶add("x"); ¶add("y" § + n); }};
  ¶Map<String, Integer> m = new HashMap<String, Integer>() {{ put("a", 1); ¶put("b", § 2); }};
  ¶int[][] tab = { { 1, 2 }, § { 3 }, {} };
  ¶return l.size() + m.size() + tab[0].length;
}
""",
]


def tokens_of(text):
    text = text.replace('§', ' __SLOT__ ').replace('¶', ' __STMT__ ')
    toks = []
    depth = 1
    for (k, s, line, off) in clex.lex(text, 'JAVA'):
        if k == 'id' and s == '__SLOT__':
            toks.append(('slot', ''))
            continue
        if k == 'id' and s == '__STMT__':
            toks.append(('stmt', depth, 'stmt'))
            continue
        if k.startswith('cmt'):
            continue
        if k == 'punct' and s == '{':
            depth += 1
        if k == 'punct' and s == '}':
            depth = max(0, depth - 1)
        kind = {'id': 'id', 'num': 'num', 'str': 'str', 'chr': 'chr', 'punct': 'punct', 'other': 'punct'}[k]
        toks.append((kind, s))
    return toks


def snippet_text(i, suffix):
    t = SNIPPETS[i]
    # keep the annotation sign: protect it before the suffix substitution
    return t.replace('@SuppressWarnings', '\x00SuppressWarnings').replace('@', suffix).replace('\x00', '@')


@st.composite
def java_program(draw, max_snippets=4):
    n = draw(st.integers(1, max_snippets))
    toks = [('stmt', 0, 'top')] + tokens_of(HEADER) + [('stmt', 0, 'top'), ('id', 'class'), ('id', 'A'), ('punct', '{')]
    for i in range(n):
        k = draw(st.integers(0, len(SNIPPETS) - 1))
        toks += tokens_of(snippet_text(k, '%d' % i))
    toks += [('stmt', 0, 'close'), ('punct', '}')]
    return toks
