"""Line view of a formatted output, with the spans that C17 / C20 exempt (comments, literals, disabled regions,
backslash-continued lines), computed from the re-tokenised output (tok0 hook dump of a second run on the output) and, for the
C family, cross-checked with the independent lexer (a line is exempt if either view says so)."""
import re

from . import clex, corpus, tokrel

MULTI = ('COMMENT', 'STRING', 'IGNORED', 'PREPROC_BODY', 'JUNK')


class Line:
    __slots__ = ('no', 'raw', 'text', 'term', 'inside', 'inside_start', 'first', 'last', 'pp', 'cont', 'blank')

    def __init__(self, no, raw, term):
        self.no = no            # 1-based
        self.raw = raw          # bytes incl. terminator
        self.text = raw[:len(raw) - len(term)]
        self.term = term
        self.inside = None      # type of a multi-line token that covers the END of this line (trailing blanks / following breaks exempt)
        self.inside_start = None  # type of a multi-line token that covers the START of this line (leading whitespace exempt)
        self.first = None       # first chunk starting on this line
        self.last = None        # last chunk starting on this line
        self.pp = False         # preprocessor line (first chunk is in a directive)
        self.cont = False       # line ends in a backslash continuation
        self.blank = self.text.strip(b' \t\x0c') == b''


def split_lines(data):
    out = []
    for m in re.finditer(rb'[^\r\n]*(\r\n|\r|\n|$)', data):
        if m.end() == m.start():
            break
        out.append((m.group(0), m.group(1)))
    return out


def analyse(out_bytes, tok_out, lang):
    """-> list of Line.  tok_out: parsed tok0 dump of uncrustify run on out_bytes"""
    lines = [Line(i + 1, raw, term) for i, (raw, term) in enumerate(split_lines(out_bytes))]
    n = len(lines)
    for c in tok_out:
        if c.type == 'NEWLINE':
            continue
        ln = c.line
        if not (1 <= ln <= n):
            continue
        L = lines[ln - 1]
        if c.type == 'NL_CONT':
            L.cont = True
            continue
        if L.first is None:
            L.first = c
            L.pp = bool(c.pp)
        L.last = c
        span = c.text.count('\n') if '\n' in c.text else len(re.findall(r'\r\n|\r', c.text))
        if span:
            for k in range(ln, min(n, ln + span) + 1):
                if k < ln + span:
                    lines[k - 1].inside = lines[k - 1].inside or c.type
                if k > ln:
                    lines[k - 1].inside_start = lines[k - 1].inside_start or c.type
    if lang in corpus.CFAMILY:
        toks = tokrel.lex_or_none(out_bytes, lang)
        if toks:
            for (k, s, ln, _o) in toks:
                if k in ('cmt_c', 'cmt_cpp', 'str') and ('\n' in s or '\r' in s):
                    span = len(re.findall(r'\r\n|\r|\n', s))
                    for j in range(ln, min(n, ln + span) + 1):
                        if j < ln + span:
                            lines[j - 1].inside = lines[j - 1].inside or k
                        if j > ln:
                            lines[j - 1].inside_start = lines[j - 1].inside_start or k
    return lines


def leading_ws(text):
    m = re.match(rb'[ \t]*', text)
    return m.group(0)
