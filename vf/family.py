"""Shared driver for the checks whose cases are (source bytes, language, config dict) and whose oracle is a set of named
relations over one execution (C02, C03, C04, C07, C08, C17, C20 ...).

A check supplies   judge(case) -> (info dict, [(relation, diffdesc)])      diffdesc: dict with 'class','at','got',...
The driver runs cases in worker processes, clusters raw failures by (relation, diff signature), re-executes one
representative per cluster 3x, minimises its configuration (ddmin) and source lines, builds the signature, matches it
against the ledger and reports.
"""
import collections
import random

from . import core, registry, run, shrink, tokrel


class Case:
    __slots__ = ('src', 'lang', 'cfgd', 'origin', 'extra')

    def __init__(self, src, lang, cfgd, origin, extra=None):
        self.src, self.lang, self.cfgd, self.origin, self.extra = src, lang, dict(cfgd), origin, extra

    @property
    def cfg(self):
        return registry.cfg_text(self.cfgd)

    def key(self):
        return core.sha(self.src, self.lang, self.cfgd, self.extra)

    def with_(self, src=None, cfgd=None):
        return Case(self.src if src is None else src, self.lang, self.cfgd if cfgd is None else cfgd, self.origin, self.extra)

    def replay(self):
        return {'lang': self.lang, 'cfg': self.cfg, 'cfgd': self.cfgd, 'src_b64': core.b64(self.src), 'origin': self.origin,
                'extra': self.extra}

    @staticmethod
    def from_replay(r):
        return Case(core.unb64(r['src_b64']), r['lang'], r.get('cfgd') or {}, r.get('origin'), r.get('extra'))


def dkey(rel, d):
    return '%s|%s' % (rel, tokrel.diff_sig(d))


def make_sig(case, rel, d, opts=None):
    return {'relation': rel, 'diff': tokrel.diff_sig(d), 'class': d['class'], 'lang': case.lang,
            'opts': dict(case.cfgd if opts is None else opts),
            'file': (case.origin or {}).get('file'), 'origin': (case.origin or {}).get('kind'),
            '_detail': {'in': d.get('in'), 'out': d.get('out'), 'first_in': d.get('first_in'), 'first_out': d.get('first_out')}}


def run_batch(args):
    """worker: args = (judge, [cases], sample_every)"""
    judge, cases = args
    p = core.Part()
    raw = []
    for c in cases:
        try:
            info, fails = judge(c)
        except Exception as ex:      # noqa
            import traceback
            p.infra('judge raised on %s: %s' % ((c.origin or {}), traceback.format_exc()[-900:]))
            continue
        if info.get('inconclusive'):
            p.count('inconclusive')
            continue
        p.case(c.key(), info.get('nontrivial', False), info.get('classes', ()))
        for k in info.get('counts', ()):
            p.count(k)
        if info.get('nontrivial') and info.get('sample') is not None:
            p.sample(info['sample'], cap=2)
        for rel, d in fails:
            raw.append((rel, d, c))
    r = p.result()
    r['raw'] = raw
    return r


def explore(ctx, judge, cases, batch=12):
    """run all cases; returns raw failures [(rel, d, case)]"""
    import time
    t0 = time.time()
    cases = list(cases)
    batches = [(judge, cases[i:i + batch]) for i in range(0, len(cases), batch)]
    raw = []
    for r in core.pmap(run_batch, batches):
        raw.extend(r.pop('raw', []))
        ctx.merge(r)
    ctx.extra.setdefault('phase_s', {})['explore'] = round(ctx.extra.get('phase_s', {}).get('explore', 0) + time.time() - t0, 1)
    return raw


def _confirm_and_minimise(args):
    """worker: (judge, rel, d, case, minimise_src) -> None if not reproducible else (sig, replay)"""
    judge, rel, d, case, do_src = args
    want = dkey(rel, d)
    wcls = (rel, d['class'])

    def fails_exact(c):
        try:
            info, fl = judge(c)
        except Exception:
            return False
        return any(dkey(r, x) == want for r, x in fl)

    def fails_class(c):
        try:
            info, fl = judge(c)
        except Exception:
            return False
        return any((r, x['class']) == wcls for r, x in fl)

    if d.get('no_minimise'):
        # expensive cases (CPU-limit hits): confirmed twice more, reported as found
        for _ in range(2):
            if not fails_class(case):
                return ('flaky', rel, d, case)
        sig = make_sig(case, rel, d)
        rep = case.replay()
        rep['relation'] = rel
        rep['diff'] = {k: d.get(k) for k in ('class', 'at', 'got', 'in', 'out', 'index', 'detail') if k in d}
        rep['src_preview'] = core.preview(case.src, 1200)
        return ('ok', sig, rep)
    for _ in range(3):
        if not fails_exact(case):
            return ('flaky', rel, d, case)
    if d.get('min_case_extra'):
        # cheaper judging while minimising (e.g. a short CPU limit for hangs)
        case = case.with_()
        case.extra = dict(case.extra or {}, **d['min_case_extra'])
    cfgd = shrink.min_cfg(case.cfgd, lambda dd: fails_class(case.with_(cfgd=dd)), max_tests=150)
    c2 = case.with_(cfgd=cfgd)
    if do_src and len(case.src) < (do_src if (isinstance(do_src, int) and do_src > 1) else 40000):
        src = shrink.min_lines(case.src, lambda s: fails_class(c2.with_(src=s)), max_tests=120 if len(case.src) > 8000 else 250)
        c3 = c2.with_(src=src)
        if fails_class(c3):
            c2 = c3
    # final description from the minimised case
    info, fl = judge(c2)
    best = next(((r, x) for r, x in fl if (r, x['class']) == wcls), None)
    if best is None:
        c2 = case.with_(cfgd=cfgd)
        info, fl = judge(c2)
        best = next(((r, x) for r, x in fl if (r, x['class']) == wcls), (rel, d))
    r2, d2 = best
    sig = make_sig(c2, r2, d2)
    rep = c2.replay()
    rep['relation'] = r2
    rep['diff'] = {k: d2.get(k) for k in ('class', 'at', 'got', 'in', 'out', 'index', 'detail') if k in d2}
    rep['src_preview'] = core.preview(c2.src, 1200)
    rep['original_cfg_size'] = len(case.cfgd)
    return ('ok', sig, rep)


def triage(ctx, judge, raw, per_cluster=2, minimise_src=True, max_clusters=60):
    """cluster raw failures, confirm + minimise representatives in parallel, report through ctx.failure"""
    import time
    t0 = time.time()
    clusters = collections.OrderedDict()
    for rel, d, c in raw:
        clusters.setdefault(dkey(rel, d), []).append((rel, d, c))
    ctx.counts['raw_failures'] += len(raw)
    ctx.counts['failure_clusters'] += len(clusters)
    jobs = []
    for k, members in list(clusters.items())[:max_clusters]:
        members.sort(key=lambda m: (len(m[2].cfgd), len(m[2].src)))
        seen = set()
        for rel, d, c in members:
            ok = tuple(sorted(c.cfgd.items()))
            if ok in seen:
                continue
            seen.add(ok)
            jobs.append((judge, rel, d, c, minimise_src))
            if len(seen) >= per_cluster:
                break
    if len(clusters) > max_clusters:
        ctx.counts['clusters_not_triaged'] += len(clusters) - max_clusters
    for res in core.pmap(_confirm_and_minimise, jobs):
        if isinstance(res, dict):          # worker exception (Part dict)
            ctx.infra_errors.extend(res.get('infra', []))
            continue
        if res is None:
            continue
        if res[0] == 'flaky':
            ctx.counts['not_reproducible_3x'] += 1
            continue
        _, sig, rep = res
        ctx.failure(sig, rep)
    ctx.extra.setdefault('phase_s', {})['triage'] = round(time.time() - t0, 1)


def replay_case(judge):
    """returns a replay(rec) function for ./check --replay and the regress tier"""
    def _replay(rec):
        c = Case.from_replay(rec)
        info, fl = judge(c)
        out = []
        want = rec.get('relation')
        for rel, d in fl:
            if want and rel != want:
                continue
            sig = make_sig(c, rel, d)
            rep = c.replay()
            rep['relation'] = rel
            rep['diff'] = {k: d.get(k) for k in ('class', 'at', 'got', 'in', 'out', 'index', 'detail') if k in d}
            out.append((sig, rep))
        return out
    return _replay


# ------------------------------------------------------------------------------------------------ config strategies
POOL = [None]      # quick tier: generated cases take their configuration from a fixed pool of POOL[0] seeds (set by set_tier)


def set_tier(ctx, pool=64):
    # generated cases draw their configuration from a fixed pool: 64 seeds in the quick tier, 1024 in the thorough tier
    POOL[0] = pool if ctx.tier == 'quick' else 16 * pool


def cfg_seed(cseed):
    """seed for the configuration of a generated case: one of a fixed pool (see set_tier)"""
    if POOL[0]:
        return core.subseed(core.DEFAULT_SEED, 'cfg-pool', cseed % POOL[0])
    return cseed


def exclusions(ctx):
    """option exclusions carried by known findings: {'option': [values] | '*'}"""
    ex = {}
    for e in ctx.ledger.known():
        for k, v in (e.get('exclude') or {}).items():
            if v == '*':
                ex[k] = '*'
            else:
                ex.setdefault(k, [])
                if ex[k] != '*':
                    ex[k] = sorted(set(ex[k]) | set(str(x) for x in v))
    return ex


def apply_exclusions(cfgd, ex, counter=None):
    for k in list(cfgd):
        v = ex.get(k)
        if v is None:
            continue
        if v == '*' or str(cfgd[k]) in v:
            del cfgd[k]
            if counter is not None:
                counter['excluded_draws'] += 1
    return cfgd


def random_cfgs(seed, n, classes=('WS',), densities=(0.01, 0.03, 0.08), ex=None, counter=None, pin=None, exclude=()):
    out = []
    for i in range(n):
        rng = random.Random(core.subseed(seed, 'cfg', i))
        d = registry.random_cfg(rng, classes, densities[i % len(densities)], exclude=exclude, pin=pin)
        if ex:
            apply_exclusions(d, ex, counter)
        out.append(d)
    return out


# ------------------------------------------------------------------------------------------------ Hypothesis-driven search
def _hyp_shard(args):
    """worker: (judge, make_strategy, to_case, seed, n_examples, known_entries_prop) -> Part dict with 'raw'
    make_strategy() -> hypothesis strategy; to_case(value) -> Case.  A failing example that matches a known finding is counted
    and skipped (search continues); any other failure is shrunk by Hypothesis (bounded) and returned raw."""
    judge, make_strategy, to_case, hseed, n, prop = args
    from hypothesis import HealthCheck, given, seed, settings
    from hypothesis.errors import Unsatisfiable
    p = core.Part()
    ledger = core.Ledger(prop)
    state = {'fail_calls': 0, 'last': None}

    class Found(Exception):
        pass

    @seed(hseed)
    @settings(max_examples=n, database=None, deadline=None, derandomize=False, report_multiple_bugs=False,
              suppress_health_check=list(HealthCheck))
    @given(make_strategy())
    def test(value):
        if state['last'] is not None:
            state['post'] = state.get('post', 0) + 1
            if state['post'] > 500:         # bounded shrinking: stop evaluating, Hypothesis then settles on the smallest failure seen
                return
        c = to_case(value)
        if c is None:
            p.count('generator_rejected')
            return
        info, fails = judge(c)
        if info.get('inconclusive'):
            p.count('inconclusive')
            return
        if state['last'] is None:
            p.case(c.key(), info.get('nontrivial', False), info.get('classes', ()))
            for k in info.get('counts', ()):
                p.count(k)
            if info.get('nontrivial') and info.get('sample') is not None:
                p.sample(info['sample'], cap=1)
        unknown = []
        for rel, d in fails:
            if ledger.match(make_sig(c, rel, d)) is not None:
                p.count('known_skipped_in_search')
            else:
                unknown.append((rel, d))
        if not unknown:
            return
        if state['fail_calls'] > 250:       # bounded shrinking
            return
        state['fail_calls'] += 1
        state['last'] = (unknown[0][0], unknown[0][1], c)
        raise Found()

    try:
        test()
    except Found:
        pass
    except Unsatisfiable:
        p.infra('hypothesis: unsatisfiable strategy')
    except Exception as ex:
        if state['last'] is None:
            import traceback
            p.infra('hypothesis shard raised: ' + traceback.format_exc()[-1200:])
    r = p.result()
    r['raw'] = [state['last']] if state['last'] is not None else []
    return r


def hyp_explore(ctx, judge, make_strategy, to_case, shards, examples):
    import time
    t0 = time.time()
    jobs = [(judge, make_strategy, to_case, core.subseed(ctx.seed, ctx.prop, 'hyp', make_strategy.__name__, i), examples, ctx.prop) for i in range(shards)]
    raw = []
    for r in core.pmap(_hyp_shard, jobs):
        raw.extend(r.pop('raw', []))
        ctx.merge(r)
    ctx.extra.setdefault('phase_s', {})['hypothesis'] = round(time.time() - t0, 1)
    return raw
