// libFuzzer harness for C06 (thorough tier): in-process uncrustify as a coverage-guided *candidate generator*.
// input layout: byte 0 = language (mod 9), byte 1 = configuration (mod 5, table below; checks/c06.py holds the same table),
// rest = source text.  exit() is intercepted with -Wl,--wrap=exit + longjmp.  uncrustify's global state cannot be reset with
// certainty, so nothing found here is a verdict: every crash-/timeout- artifact is replayed through the sanitizer CLI binary.
#include "uncrustify_types.h"
#include "uncrustify.h"
#include "option.h"
#include "keywords.h"
#include "logger.h"
#include "logmask.h"
#include "unicode.h"
#include "language_names.h"
#include "prototypes.h"
#include <csetjmp>
#include <cstdio>
#include <cstdint>
#include <cstring>
#include <string>
#include <vector>

using namespace uncrustify;

static jmp_buf g_env;
static bool    g_in_target = false;
extern "C" void __real_exit(int);
extern "C" void __wrap_exit(int code)
{
   if (g_in_target)
   {
      g_in_target = false;
      longjmp(g_env, code + 1000);
   }
   __real_exit(code);
}

static const char *LANGS[] = { "C", "CPP", "D", "CS", "JAVA", "OC", "VALA", "PAWN", "ECMA" };
static const char *CFGS[][8] = {
   { nullptr },
   { "indent_columns=3", "indent_with_tabs=0", "nl_max=2", nullptr },
   { "mod_full_brace_if=remove", "mod_full_brace_for=add", "mod_paren_on_return=add", nullptr },
   { "code_width=60", "sp_arith=force", "align_assign_span=1", nullptr },
   { "nl_if_brace=add", "nl_brace_else=add", "nl_fdef_brace=add", "cmt_cpp_to_c=true", nullptr },
};

extern "C" int LLVMFuzzerTestOneInput(const uint8_t *data, size_t size)
{
   static bool init = false;
   static FILE *devnull = nullptr;
   if (!init)
   {
      register_options();
      devnull = fopen("/dev/null", "wb");
      log_init(devnull);
      log_mask_t mask;
      logmask_from_string("", mask);
      log_set_mask(mask);
      init = true;
   }
   if (size < 2) return 0;
   // reset state
   for (size_t i = 0; ; i++)
   {
      OptionGroup *g = get_option_group(i);
      if (g == nullptr) break;
      for (auto *o : g->options) o->reset();
   }
   clear_keyword_file();
   cpd.lang_flags = language_flags_from_name(LANGS[data[0] % 9]);
   cpd.frag = false; cpd.do_check = false; cpd.if_changed = false;
   const char *const *cfg = CFGS[data[1] % 5];
   int compat = 0;
   cpd.line_number = 0;
   for (int i = 0; cfg[i]; i++) process_option_line(cfg[i], "fuzz.cfg", compat);
   cpd.filename = "fuzz.src";
   file_mem fm;
   fm.raw.assign(data + 2, data + size);
   if (!decode_unicode(fm.raw, fm.data, fm.enc, fm.bom)) return 0;
   init_keywords_for_language();
   int rc = setjmp(g_env);
   if (rc == 0)
   {
      g_in_target = true;
      uncrustify_file(fm, devnull, nullptr, nullptr, true);
      g_in_target = false;
   }
   else
   {
      // exit() was called inside: clean up the chunk list
      uncrustify_end();
   }
   return 0;
}
