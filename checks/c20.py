"""C20  Blank-line limits are respected.

Domain   corpus files (all languages) and Hypothesis-generated C programs with 0..6 blank lines injected at line boundaries (also at
         file start and end)  x  nl_max 0..6, nl_start_of_file / nl_end_of_file at all four values with minima 0..4,
         eat_blanks_after_open_brace / eat_blanks_before_close_brace, and random whitespace-class options whose blank-line counts are
         clamped to nl_max (the proviso of the statement).
Oracle   validity predicate on runs of line breaks of the output outside comments, literals, continued lines and disabled regions
         (spans from the re-tokenised output and the independent lexer):
           M  nl_max = N > 0: no run of more than N consecutive line breaks between two code lines
           S  leading line breaks per nl_start_of_file(_min): remove 0; force exactly min; add >= min (ignore: nothing is
              determined by these options - other count options may add breaks at the file edges)
           F  trailing line breaks per nl_end_of_file(_min), same model
           B  eat_blanks_after_open_brace: no blank line directly after a line ending in '{';
              eat_blanks_before_close_brace: none directly before a line starting with '}'
"""
import os
import random
import re

from vf import core, corpus, family, gen_c, layout, outlines, registry, tokrel

BUILDS = ('fast',)
LEVEL = 'exploration'
IARF = ['ignore', 'add', 'remove', 'force']
# options that explicitly request blank lines next to a brace (kept at default when the eat_blanks_ options are judged)
BRACE_BLANK_OPTS = ('nl_inside_empty_func', 'nl_inside_namespace', 'nl_after_access_spec', 'nl_before_access_spec', 'nl_after_func_body',
                    'nl_after_func_body_class', 'nl_after_func_body_one_liner', 'nl_before_namespace', 'nl_after_namespace',
                    'nl_after_class', 'nl_after_struct', 'nl_before_class', 'nl_func_var_def_blk', 'nl_var_def_blk_start', 'nl_var_def_blk_end',
                    'nl_typedef_blk_start', 'nl_typedef_blk_end', 'nl_before_block_comment', 'nl_before_c_comment', 'nl_before_cpp_comment',
                    'nl_after_multiline_comment', 'nl_before_whole_file_ifdef', 'nl_after_whole_file_ifdef', 'nl_before_whole_file_endif',
                    'nl_after_whole_file_endif', 'nl_oc_before_interface', 'nl_oc_before_implementation', 'nl_oc_before_end')


def count_breaks(b):
    return len(re.findall(rb'\r\n|\r|\n', b))


def edge_breaks(data):
    """(leading, trailing) counts of line breaks (only blank characters may sit between them)"""
    m = re.match(rb'(?:[ \t\x0c]*(?:\r\n|\r|\n))*', data)
    lead = count_breaks(m.group(0))
    m = re.search(rb'(?:(?:\r\n|\r|\n)[ \t\x0c]*)*\Z', data)
    trail = count_breaks(m.group(0))
    return lead, trail


def strip_bom(b):
    return b[3:] if b.startswith(b'\xef\xbb\xbf') else b


def dd(cls, what, L, extra=''):
    return {'class': cls, 'at': [what], 'got': [extra], 'index': L.no if L else 0, 'in': [what], 'out': [core.preview(L.text, 100) if L else ''],
            'first_in': what, 'first_out': extra}


def judge(case):
    e = tokrel.execute(case.src, case.lang, case.cfg)
    if e.timeout:
        return {'inconclusive': True}, []
    if not e.accepted or e.tok_out is None:
        return {'counts': ['refused'], 'classes': ['refused:' + case.lang]}, []
    if b'\x00' in e.out[:4096] or b'\x00' in case.src[:4096]:
        return {'counts': ['skipped_utf16'], 'classes': ['skipped:utf16']}, []
    cfgd = case.cfgd
    out = strip_bom(e.out)
    src = strip_bom(case.src)
    if not out.strip() or not src.strip():
        return {'counts': ['skipped_empty'], 'classes': ['skipped:empty']}, []
    lines = outlines.analyse(e.out, e.tok_out, case.lang)
    fails = []
    nl_max = int(cfgd.get('nl_max', '0'))
    eat_open = cfgd.get('eat_blanks_after_open_brace', 'false') == 'true'
    eat_close = cfgd.get('eat_blanks_before_close_brace', 'false') == 'true'
    # ---- M and B over interior runs
    n = len(lines)
    i = 0
    first_code = next((k for k, L in enumerate(lines) if not L.blank), None)
    last_code = max((k for k, L in enumerate(lines) if not L.blank), default=None)
    seen = set()
    max_run_in = 0
    for m_ in re.finditer(rb'(?:(?:\r\n|\r|\n)[ \t\x0c]*){2,}', src):
        max_run_in = max(max_run_in, count_breaks(m_.group(0)))
    if first_code is not None:
        k = first_code
        while k < last_code:
            if not lines[k + 1].blank:
                k += 1
                continue
            j = k + 1
            while j <= last_code and lines[j].blank:
                j += 1
            prev, nxt = lines[k], lines[j]
            blanks = lines[k + 1:j]
            run = len(blanks) + 1
            exempt = (prev.inside or prev.cont or any(b.inside or b.inside_start for b in blanks) or nxt.inside_start or
                      (prev.last is not None and prev.last.type in ('IGNORED', 'JUNK')) or (nxt.first is not None and nxt.first.type in ('IGNORED', 'JUNK')))
            if not exempt:
                if nl_max > 0 and run > nl_max and 'M' not in seen:
                    seen.add('M')
                    fails.append(('nl_max', dd('nl_max-exceeded', 'run of %d breaks, nl_max=%d' % (run, nl_max), nxt,
                                               '%s | %s' % (prev.last.type if prev.last else None, nxt.first.type if nxt.first else None))))
                if eat_open and prev.last is not None and prev.last.type == 'BRACE_OPEN' and prev.text.rstrip().endswith(b'{') and 'BO' not in seen:
                    seen.add('BO')
                    fails.append(('eat-blanks', dd('blank-after-open-brace', '%d blank line(s) after {' % len(blanks), prev,
                                                   str(nxt.first.type if nxt.first else None))))
                if eat_close and nxt.first is not None and nxt.first.type == 'BRACE_CLOSE' and 'BC' not in seen:
                    seen.add('BC')
                    fails.append(('eat-blanks', dd('blank-before-close-brace', '%d blank line(s) before }' % len(blanks), nxt,
                                                   str(prev.last.type if prev.last else None))))
            k = j
    # ---- S / F
    lin, tin = edge_breaks(src)
    lout, tout = edge_breaks(out)
    code_in = [c for c in e.tok_in if c.type not in tokrel.NL_TYPES]
    edge_ok = bool(code_in) and code_in[0].type not in ('IGNORED', 'JUNK') and code_in[-1].type not in ('IGNORED', 'JUNK', 'COMMENT_MULTI') and \
        not (lines and (lines[-1].inside_start or lines[0].inside)) and not re.search(rb'\\[ \t]*(\r\n|\r|\n)*\Z', out)
    if edge_ok:
        for tag, optn, cin, cout in (('S', 'nl_start_of_file', lin, lout), ('F', 'nl_end_of_file', tin, tout)):
            v = cfgd.get(optn, 'ignore')
            mn = int(cfgd.get(optn + '_min', '0'))
            bad = None
            if v == 'remove' and cout != 0:
                bad = 'remove: %d' % cout
            elif v == 'force' and cout != mn:
                bad = 'force min=%d: %d' % (mn, cout)
            elif v == 'add' and cout < mn:
                bad = 'add min=%d in=%d: %d' % (mn, cin, cout)
            # 'ignore': the two options determine nothing; other count options (nl_after_func_body ...) may add breaks at the edges
            if bad:
                L = lines[0] if tag == 'S' else lines[-1]
                fails.append((optn, dd('%s-%s' % (optn, v), bad, L, 'nl_max=%d' % nl_max)))
    nontrivial = (nl_max > 0 and max_run_in > nl_max) or any(k in cfgd for k in ('nl_start_of_file', 'nl_end_of_file')) and (lin, tin) != (lout, tout) \
        or ((eat_open or eat_close) and max_run_in >= 2)
    info = {'nontrivial': bool(nontrivial),
            'classes': ['lang:' + case.lang, 'origin:' + (case.origin or {}).get('kind', '?'), 'nl_max:%d' % nl_max, 'sof:' + cfgd.get('nl_start_of_file', 'ignore'),
                        'eof:' + cfgd.get('nl_end_of_file', 'ignore')] + (['eat_open'] if eat_open else []) + (['eat_close'] if eat_close else []) +
                       (['input-run>nl_max'] if nl_max and max_run_in > nl_max else []),
            'sample': {'origin': case.origin, 'lang': case.lang, 'cfg': cfgd, 'max_run_in_input': max_run_in, 'edges_in': [lin, tin], 'edges_out': [lout, tout]}}
    return info, fails


replay = family.replay_case(judge)
_EX = {}


def draw_cfg(rng, density):
    d = registry.random_cfg(rng, ('WS',), density) if density else {}
    r = rng.random()
    d['nl_max'] = str(rng.choice([0, 1, 2, 2, 3, 4, 5, 6])) if r < 0.85 else d.get('nl_max', '0')
    if rng.random() < 0.5:
        d['nl_start_of_file'] = rng.choice(IARF)
        d['nl_start_of_file_min'] = str(rng.randint(0, 4))
    if rng.random() < 0.5:
        d['nl_end_of_file'] = rng.choice(IARF)
        d['nl_end_of_file_min'] = str(rng.randint(0, 4))
    if rng.random() < 0.4:
        d['eat_blanks_after_open_brace'] = rng.choice(['true', 'false'])
        d['eat_blanks_before_close_brace'] = rng.choice(['true', 'false'])
    if d.get('eat_blanks_after_open_brace') == 'true' or d.get('eat_blanks_before_close_brace') == 'true':
        reg = registry.by_name()
        for k in list(d):
            if k in BRACE_BLANK_OPTS or (k.startswith('nl_') and reg[k]['type'] == 'num' and k not in ('nl_max', 'nl_start_of_file_min', 'nl_end_of_file_min')):
                d.pop(k)           # count options that explicitly request blank lines (possibly next to a brace) stay at default
    if d.get('nl_max') == '1' or d.get('eat_blanks_after_open_brace') == 'true' or d.get('eat_blanks_before_close_brace') == 'true':
        # nl_before_* / nl_after_* options (add/remove/force or boolean) request a blank line next to a construct: with nl_max = 1 (no
        # blank line at all) or next to a brace under eat_blanks_* they ask for more than is allowed - the statement's proviso
        for k in list(d):
            if k.startswith(('nl_before_', 'nl_after_', 'nl_around_', 'nl_between_')):
                d.pop(k)
    family.apply_exclusions(d, _EX)
    registry.fix_nl_max(d)
    # the file-edge minima are clamped too (they are blank-line count options within the meaning of the proviso)
    return d


def inject_blank_lines(src, rng, p=0.25):
    """0..6 extra blank lines at random line boundaries (not after a backslash continuation), also at file start / end"""
    out = []
    pieces = outlines.split_lines(src)
    if rng.random() < 0.5:
        out.append(b'\n' * rng.randint(0, 6))
    for raw, term in pieces:
        out.append(raw)
        text = raw[:len(raw) - len(term)]
        if term and not text.endswith(b'\\') and rng.random() < p:
            out.append(term * rng.randint(1, 6))
    if rng.random() < 0.5:
        out.append(b'\n' * rng.randint(0, 6))
    return b''.join(out)


def make_strategy():
    from hypothesis import strategies as st
    return st.tuples(gen_c.c_program(max_depth=4, max_funcs=3), st.integers(0, 2 ** 32 - 1), st.integers(0, 2 ** 32 - 1))


def to_case(v):
    toks, lseed, cseed = v
    cseed = family.cfg_seed(cseed)
    rng = random.Random(lseed)
    src, r = layout.render(toks, rng, 'C', dict(blank=6, p_cmt=0.1, p_trail=0.1))
    src = inject_blank_lines(src.encode('utf-8'), rng, 0.15)
    return family.Case(src, 'C', draw_cfg(random.Random(cseed), (0, 0.02, 0.06)[cseed % 3]), {'kind': 'generated', 'layout_seed': lseed, 'cfg_seed': cseed})


def main(ctx):
    quick = ctx.tier == 'quick'
    _EX.update(family.exclusions(ctx))
    family.set_tier(ctx)
    ctx.rule = ('case = (source with injected blank lines, language, config); judged when uncrustify exits 0; non-trivial = the input has a run '
                'longer than nl_max, or start/end counts change under a start/end option, or an eat_blanks option is set and the input has blank '
                'lines; distinct by sha256')
    ctx.assumptions = ['blank-line count options are clamped to nl_max (proviso of the statement); options that request blank lines next to a '
                       'brace stay at default when eat_blanks_* is judged', 'start/end model: see docstring (S/F)']
    core.replay_regress(ctx, replay)
    files = corpus.files()
    cases = []
    ncfg = 5 if quick else 30
    for rel, lang in files:
        src = corpus.read(rel)
        for i in range(ncfg):
            r = random.Random(core.subseed(ctx.useed, 'corpus', rel, i))
            s2 = src if b'\x00' in src[:4096] else inject_blank_lines(src, r, (0.1, 0.3)[i % 2])
            cases.append(family.Case(s2, lang, draw_cfg(r, (0.0, 0.02, 0.05)[i % 3]), {'kind': 'corpus-blank-injected', 'file': rel, 'cfg_index': i}))
    # exhaustive small matrix on one carrier: nl_max x start/end option x min x input edge counts
    carrier = b'int a;\n\n\n\n\n\n\nint f(void)\n{\n\n\n\n    return 1;\n\n\n\n}\n'
    for nm in range(0, 7):
        for v in IARF:
            for mn in (0, 1, 3):
                for edge in (0, 1, 4):
                    cd = {'nl_max': str(nm), 'nl_start_of_file': v, 'nl_start_of_file_min': str(mn), 'nl_end_of_file': v, 'nl_end_of_file_min': str(mn),
                          'eat_blanks_after_open_brace': 'true' if (nm + mn) % 2 else 'false', 'eat_blanks_before_close_brace': 'true' if edge % 2 else 'false'}
                    registry.fix_nl_max(cd)
                    cases.append(family.Case(b'\n' * edge + carrier.rstrip(b'\n') + b'\n' * edge, 'C', cd, {'kind': 'matrix'}))
    # enumerated C++ containers x eat_blanks_* together with every blank-line count option (value 3) that is not documented to override
    # them (nl_inside_namespace and nl_inside_empty_func are): "eat_blanks_* leave no blank line next to the brace"
    from vf import gen_cpp
    reg = registry.by_name()
    count_opts = sorted(k for k, o in reg.items() if k.startswith('nl_') and o['type'] == 'num' and
                        k not in ('nl_max', 'nl_start_of_file_min', 'nl_end_of_file_min', 'nl_max_blank_in_func', 'nl_inside_namespace', 'nl_inside_empty_func'))
    ctx.extra['container_count_options'] = len(count_opts)
    shapes = list(gen_cpp.container_shapes())
    for si, (name, src) in enumerate(shapes):
        for oi, k in enumerate(count_opts):
            if quick and (si + oi) % 4:
                continue
            cd = {'eat_blanks_after_open_brace': 'true', 'eat_blanks_before_close_brace': 'true', k: '3'}
            cases.append(family.Case(src.encode(), 'CPP', cd, {'kind': 'container-shape', 'file': 'shape:' + name}))
    raw = family.explore(ctx, judge, cases)
    raw += family.hyp_explore(ctx, judge, make_strategy, to_case, shards=16, examples=(150 if quick else 5000))
    family.triage(ctx, judge, raw)
