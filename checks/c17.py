"""C17  Whitespace hygiene of the output.

Domain   corpus files (all languages) as they are and with their line-leading / line-trailing whitespace re-randomised (trailing
         blanks, tab after space, blank lines holding blanks), Hypothesis-generated C programs in random layouts  x  configs with the
         tab options drawn at weight (indent_with_tabs 0/1/2, pp_indent_with_tabs -1..2, align_with_tabs, align_keep_tabs,
         indent_columns != output_tab_size, pp_indent, nl_end_of_file(_min), indent_single_newlines) + random whitespace / mod_ options.
Oracle   validity predicate on the raw output lines; comment / literal / disabled-region / continuation spans come from the
         re-tokenised output and (C family) the independent lexer:
           T  no line ends in a blank outside those spans, unless indent_single_newlines asks for indented blank lines
           E  the file ends per nl_end_of_file / nl_end_of_file_min (remove: no final break; force: exactly min; add: >= min)
           L0 indent_with_tabs = 0: no tab in the leading whitespace of a code line
           L1 indent_with_tabs = 1|2: no space before a tab in the leading whitespace
           P  preprocessor lines are judged with pp_indent_with_tabs (-1 inherits indent_with_tabs)
"""
import os
import random
import re

from vf import core, corpus, family, gen_c, layout, outlines, registry, tokrel

BUILDS = ('fast',)
LEVEL = 'exploration'

TAB_OPTS = {'indent_with_tabs': ['0', '1', '2'], 'pp_indent_with_tabs': ['-1', '0', '1', '2'], 'align_with_tabs': ['true', 'false'],
            'align_keep_tabs': ['true', 'false'], 'indent_columns': ['2', '3', '4', '8'], 'output_tab_size': ['2', '4', '5', '8'],
            'pp_indent': ['add', 'force', 'ignore'], 'pp_indent_count': ['1', '2', '4'], 'nl_end_of_file': ['ignore', 'add', 'remove', 'force'],
            'nl_end_of_file_min': ['0', '1', '2', '3'], 'indent_cmt_with_tabs': ['true', 'false'], 'align_nl_cont': ['0', '1'],
            'align_right_cmt_span': ['0', '3'], 'indent_single_newlines': ['false', 'false', 'false', 'true'],
            'align_var_def_span': ['0', '2'], 'align_assign_span': ['0', '1'], 'pp_space_after': ['ignore', 'add', 'force'],
            'pp_define_at_level': ['true', 'false'], 'pp_indent_brace': ['0', '1']}


def opt(cfgd, name, default):
    return cfgd.get(name, default)


def viol(cls, line, detail, L):
    return {'class': cls, 'at': [detail], 'got': [repr(L.text[-24:] if cls == 'trailing-blank' else L.text[:24])], 'index': L.no,
            'in': [detail], 'out': [core.preview(L.text, 120)], 'first_in': detail, 'first_out': (L.first.type if L.first else 'none')}


def judge(case):
    e = tokrel.execute(case.src, case.lang, case.cfg)
    if e.timeout:
        return {'inconclusive': True}, []
    if not e.accepted or e.tok_out is None:
        return {'counts': ['refused'], 'classes': ['refused:' + case.lang]}, []
    if b'\x00' in e.out[:4096]:
        return {'counts': ['skipped_utf16'], 'classes': ['skipped:utf16']}, []       # line predicates are written for byte-oriented text
    cfgd = case.cfgd
    lines = outlines.analyse(e.out, e.tok_out, case.lang)
    fails = []
    iwt = int(opt(cfgd, 'indent_with_tabs', '1'))
    ppt = int(opt(cfgd, 'pp_indent_with_tabs', '-1'))
    if ppt == -1:
        ppt = iwt
    isn = opt(cfgd, 'indent_single_newlines', 'false') == 'true'
    seen = set()
    ntrail_in = len(re.findall(rb'[ \t]+(?=\r?\n)', case.src))
    in_region = False
    for L in lines:
        first_t = L.first.type if L.first is not None else None
        last_t = L.last.type if L.last is not None else None
        # T: trailing blanks
        if L.text[-1:] in (b' ', b'\t'):
            exempt = L.inside or (last_t and (tokrel.is_cmt(last_t) or last_t in ('IGNORED', 'JUNK'))) or (L.blank and (isn or L.inside_start))
            if not exempt and 'T' not in seen:
                seen.add('T')
                fails.append(('trailing-blank', viol('trailing-blank', L, 'blank line' if L.blank else 'after ' + str(last_t), L)))
        # L0 / L1 / P: leading whitespace
        if L.blank or L.inside_start or first_t is None or first_t in ('IGNORED', 'JUNK'):
            continue
        lead = outlines.leading_ws(L.text)
        mode = ppt if L.pp else iwt
        tag = 'P' if L.pp else 'L'
        if mode == 0 and b'\t' in lead and tag + '0' not in seen:
            seen.add(tag + '0')
            fails.append(('leading-tab', viol('leading-tab-%s' % ('pp' if L.pp else 'code'), L, 'first chunk ' + first_t, L)))
        if mode in (1, 2) and b' \t' in lead and tag + '1' not in seen:
            seen.add(tag + '1')
            fails.append(('space-before-tab', viol('space-before-tab-%s' % ('pp' if L.pp else 'code'), L, 'first chunk ' + first_t, L)))
    # E: end of file
    eof = opt(cfgd, 'nl_end_of_file', 'ignore')
    emin = int(opt(cfgd, 'nl_end_of_file_min', '0'))
    m = re.search(rb'(\r\n|\r|\n)*\Z', e.out)
    cnt = len(re.findall(rb'\r\n|\r|\n', m.group(0)))
    code = [c for c in e.tok_out if c.type not in tokrel.NL_TYPES]
    last_chunk = code[-1].type if code else None
    # a file that ends inside a multi-line comment or on a backslash continuation has no code-level end to judge
    if code and last_chunk not in ('IGNORED', 'JUNK', 'COMMENT_MULTI') and e.out.strip() and not re.search(rb'\\[ \t]*(\r\n|\r|\n)*\Z', e.out):
        bad = None
        if eof == 'remove' and cnt != 0:
            bad = 'remove: %d breaks' % cnt
        elif eof == 'force' and cnt != emin:
            bad = 'force min=%d: %d breaks' % (emin, cnt)
        elif eof == 'add' and cnt < emin:
            bad = 'add min=%d: %d breaks' % (emin, cnt)
        if bad:
            fails.append(('end-of-file', {'class': 'end-of-file-' + eof, 'at': [bad], 'got': [str(last_chunk)], 'index': len(lines), 'in': [bad],
                                          'out': [repr(e.out[-40:])], 'first_in': bad, 'first_out': str(last_chunk)}))
    nontrivial = ntrail_in > 0 or b' \t' in case.src or any(k in cfgd for k in ('indent_with_tabs', 'pp_indent_with_tabs', 'nl_end_of_file'))
    info = {'nontrivial': bool(nontrivial) and e.out != case.src,
            'classes': ['lang:' + case.lang, 'origin:' + (case.origin or {}).get('kind', '?'), 'iwt:%d' % iwt, 'ppt:%s' % opt(cfgd, 'pp_indent_with_tabs', '-1'),
                        'eof:' + eof] + (['has-pp-indent'] if any(L.pp and outlines.leading_ws(L.text) for L in lines) else []),
            'sample': {'origin': case.origin, 'lang': case.lang, 'cfg': cfgd, 'input_trailing_blank_lines': ntrail_in, 'output_lines': len(lines)}}
    return info, fails


replay = family.replay_case(judge)
_EX = {}


def draw_cfg(rng, density=0.03, mods=False):
    d = registry.random_cfg(rng, ('WS', 'MOD') if mods else ('WS',), density)
    for k in rng.sample(sorted(TAB_OPTS), rng.randint(2, 7)):
        d[k] = rng.choice(TAB_OPTS[k])
    if d.get('indent_cmt_with_tabs') == 'true' and d.get('indent_with_tabs', '1') != '2':
        del d['indent_cmt_with_tabs']        # documented precondition of the option: "Requires indent_with_tabs=2"
    family.apply_exclusions(d, _EX)
    registry.fix_nl_max(d)
    return d


def rewhitespace(src, rng):
    """re-randomise line-leading and line-trailing whitespace of a source file (lines ending in a backslash are left alone)"""
    out = []
    for raw, term in outlines.split_lines(src):
        text = raw[:len(raw) - len(term)]
        if text.endswith(b'\\') or b'"' in text and text.count(b'"') % 2:
            out.append(raw)
            continue
        r = rng.random()
        if r < 0.25:
            text = text.rstrip(b' \t') + rng.choice([b' ', b'  ', b'\t', b' \t', b'\t '])
        m = re.match(rb'[ \t]+', text)
        if m and rng.random() < 0.3:
            lead = m.group(0)
            new = rng.choice([lead.replace(b'    ', b'\t'), lead.replace(b'\t', b'    '), b' ' + lead.replace(b'    ', b'\t'), lead + b'\t',
                              b'  \t' + lead])
            text = new + text[len(lead):]
        if text.strip() == b'' and rng.random() < 0.3:
            text = rng.choice([b' ', b'\t', b'   ', b' \t '])
        out.append(text + term)
    return b''.join(out)


def make_strategy():
    from hypothesis import strategies as st
    return st.tuples(gen_c.c_program(max_depth=4, max_funcs=2), st.integers(0, 2 ** 32 - 1), st.integers(0, 2 ** 32 - 1))


def to_case(v):
    toks, lseed, cseed = v
    cseed = family.cfg_seed(cseed)
    rng = random.Random(lseed)
    src, r = layout.render(toks, rng, 'C', dict(p_trail=0.3, p_tab=0.25, p_cmt=0.1, blank=3, p_bs_trail=0.3, p_cont=0.8))
    if lseed % 5 == 0:
        src = src.rstrip('\n')
    return family.Case(src.encode('utf-8'), 'C', draw_cfg(random.Random(cseed), (0, 0.02, 0.06)[cseed % 3], cseed % 4 == 0),
                       {'kind': 'generated', 'layout_seed': lseed, 'cfg_seed': cseed})


TAB_POLICY_PROGRAMS = [
    ('ifdef-comments',
     '// top\n#ifdef A\n// in group, depth 0\nint g1;\n#endif\nvoid f(int a)\n{\n// depth 1\n#if defined(B)\n/* group, depth 1 */\na++;\n'
     'if (a)\n{\n// group, depth 2\n/* block\n   comment */\nwhile (a)\n{\n// group, depth 3\n#  ifdef C\n/* nested group, depth 3 */\na--;\n#  else\n'
     '// else branch, depth 3\na -= 2;\n#  endif\n}\n}\n#else\n// else, depth 1\na--;\n#endif\n// after, depth 1\nreturn;\n}\n'),
    ('ifdef-tabs-in',
     '#if X\n\t// c0\n\tint g2;   \n#endif\nint h(int a)\n{\n\t#ifdef Y\n \t// space tab\n\t \tif (a)  \n\t\t{\n   \t\t\t// deep\n\t\t\ta++;\t\n'
     '\t\t}\n\t#endif\n\treturn a;\n}\n'),
]


def main(ctx):
    quick = ctx.tier == 'quick'
    _EX.update(family.exclusions(ctx))
    family.set_tier(ctx)
    ctx.rule = ('case = (source, language, config); judged when uncrustify exits 0; non-trivial = the input holds trailing blanks or a tab '
                'after a space, or a tab / end-of-file option is set, and the output differs from the input; distinct by sha256')
    ctx.assumptions = ['exempt spans (comments, literals, disabled regions) are taken from the re-tokenised output and the independent lexer',
                       'end-of-file model: remove -> 0 breaks, force -> exactly nl_end_of_file_min, add -> at least nl_end_of_file_min']
    core.replay_regress(ctx, replay)
    files = corpus.files()
    cases = []
    ncfg = 3 if quick else 24
    for rel, lang in files:
        src = corpus.read(rel)
        for i in range(ncfg):
            r = random.Random(core.subseed(ctx.useed, 'corpus', rel, i))
            s2 = src if (i % 2 == 0 or b'\x00' in src[:4096]) else rewhitespace(src, r)
            if r.random() < 0.15:
                s2 = s2.rstrip(b'\r\n')
            cases.append(family.Case(s2, lang, draw_cfg(r, (0.0, 0.02, 0.05)[i % 3], i % 4 == 3),
                                     {'kind': 'corpus' if i % 2 == 0 else 'corpus-rewhitespaced', 'file': rel, 'cfg_index': i}))
    # enumerated tab policies: own-line comments, statements and directives at depth 0..3 inside and outside conditional groups x
    # indent_with_tabs x pp_indent_with_tabs x indent_columns x output_tab_size (the two policies meet on the lines between #if and #endif)
    ntab = 0
    for name, src in TAB_POLICY_PROGRAMS:
        for iwt in ('0', '1', '2'):
            for ppt in ('-1', '0', '1', '2'):
                for ic, ots in (('2', '8'), ('4', '4'), ('4', '8'), ('8', '8'), ('8', '4'), ('3', '8')):
                    for extra in ({}, {'pp_if_indent_code': 'true'}, {'pp_indent': 'add', 'pp_indent_count': ic}):
                        cd = dict(extra, indent_with_tabs=iwt, pp_indent_with_tabs=ppt, indent_columns=ic, output_tab_size=ots, input_tab_size=ots)
                        cases.append(family.Case(src.encode(), 'C', cd, {'kind': 'tab-policy', 'file': 'shape:' + name}))
                        ntab += 1
    ctx.extra['tab_policy_cases'] = ntab
    raw = family.explore(ctx, judge, cases)
    raw += family.hyp_explore(ctx, judge, make_strategy, to_case, shards=16, examples=(150 if quick else 4000))
    family.triage(ctx, judge, raw)
