"""C08  Line endings: one consistent terminator, and formatting commutes with it.

Domain   every corpus file (all languages) and Hypothesis-generated C programs (line breaks inside block comments, continuations,
         continued strings, // comments) re-encoded as LF, CRLF, CR and seeded per-line mixtures  x  newlines in {lf, crlf, cr, auto}
         x {default, seeded whitespace configs}.
Oracle   with x = the input normalised to LF and R = f(x, newlines=lf):
           O1  newlines = X != auto: after removing every X from the output no CR or LF byte remains
           O3  f(conv(x), lf) == R for conv in {CRLF, CR, mixed}                       (conversion of the input changes nothing)
           O4  f(x, crlf) == R with LF -> CRLF,  f(x, cr) == R with LF -> CR            (the setting only substitutes the terminator)
           O2  newlines = auto: uniform input -> that terminator (f(conv(x), auto) == R with LF -> conv);
               mixed input -> the majority terminator, asserted when its margin exceeds the breaks the census does not count
"""
import random
import re

from vf import core, corpus, family, gen_c, layout, outlines, registry, run, tokrel

BUILDS = ('fast',)
LEVEL = 'exploration'
TERM = {'lf': b'\n', 'crlf': b'\r\n', 'cr': b'\r'}
BRK = re.compile(rb'\r\n|\r|\n')


def to_lf(b):
    return BRK.sub(b'\n', b)


def conv(b_lf, kind, rng=None):
    if kind in TERM:
        return b_lf.replace(b'\n', TERM[kind])
    parts = b_lf.split(b'\n')
    out = []
    prev = b''
    for i, p in enumerate(parts[:-1]):
        t = rng.choice([b'\n', b'\r\n', b'\r'])
        if prev == b'\r' and p == b'' and t == b'\n':
            t = b'\r'              # CR + (empty line) + LF would read as one CRLF and lose a line
        out.append(p + t)
        prev = t
    out.append(parts[-1])
    return b''.join(out)


HDR = b'/*\n * inserted header, line 2\n * line 3\n */\n'
_HDR = {}       # set per judged case: {'hdr.txt': bytes} when the case inserts a file header


def fmt(src, lang, cfgd, nl):
    d = dict(cfgd)
    d['newlines'] = nl
    r, _ = run.fmt(src, lang, registry.cfg_text(d), files=_HDR.get('files'))
    return r


def where(R, other, lang):
    """construct that holds the first differing line of R (reference) - for the signature"""
    i = next((k for k in range(min(len(R), len(other))) if R[k] != other[k]), min(len(R), len(other)))
    ln = R.count(b'\n', 0, i) + 1
    try:
        r2, d2 = run.fmt(R, lang, '', dump=True)
        lines = outlines.analyse(R, tokrel.parse_dump(d2.get('tok0')), lang)
        L = lines[min(ln, len(lines)) - 1]
        if L.inside_start or L.inside:
            return str(L.inside_start or L.inside), ln
        if L.cont:
            return 'continuation', ln
        return 'code:' + (L.last.type if L.last is not None else 'blank'), ln
    except Exception:
        return 'unknown', ln


def judge(case):
    x = to_lf(case.src)
    lang, cfgd = case.lang, case.cfgd
    _HDR.clear()
    if (case.extra or {}).get('hdr_term'):
        # a file header is inserted from a file that has its own terminators: they must not influence the output's
        cfgd = dict(cfgd, cmt_insert_file_header='hdr.txt')
        _HDR['files'] = {'hdr.txt': HDR.replace(b'\n', TERM[case.extra['hdr_term']])}
    if b'\x00' in x[:4096]:
        return {'counts': ['skipped_utf16'], 'classes': ['skipped:utf16']}, []      # terminators of UTF-16 text are two-byte units (C09)
    rng = random.Random(core.subseed(case.key(), 'mix'))
    ref = fmt(x, lang, cfgd, 'lf')
    if ref.timeout:
        return {'inconclusive': True}, []
    if not ref.ok:
        return {'counts': ['refused'], 'classes': ['refused:' + lang]}, []
    R = ref.out
    fails = []

    feat = []

    def features():
        # what the (minimised) input contains - part of the signature, so that the ledger can tell the known CR weaknesses apart
        if not feat:
            r0, d0 = run.fmt(x, lang, '', dump=True)
            t0 = tokrel.parse_dump(d0.get('tok0'))
            f = []
            if b'\\\n' in x:
                f.append('backslash-newline')
            if any(c.type.startswith('STRING') and '\n' in c.text for c in t0):
                f.append('multi-line-string')
            if any(c.type == 'IGNORED' for c in t0):
                f.append('disabled-region')
            if sum(1 for i_, c in enumerate(t0) if c.type == 'NEWLINE' and i_ and not t0[i_ - 1].pp and t0[i_ - 1].type != 'IGNORED') == 0:
                f.append('no-break-outside-directives')
            feat.append('+'.join(f) or 'plain')
        return feat[0]

    def fail(rel, cls, got, detail):
        construct, ln = where(R, got, lang) if got else ('-', 0)
        i = next((k for k in range(min(len(R), len(got))) if R[k] != got[k]), min(len(R), len(got))) if got else 0
        fails.append((rel, {'class': cls, 'at': [features()], 'got': [detail], 'index': ln, 'in': [repr(R[max(0, i - 40):i + 40])],
                            'out': [repr(got[max(0, i - 40):i + 40])], 'first_in': construct, 'first_out': detail}))

    if b'\r' in R:
        fail('O1-lf', 'foreign-terminator', R.replace(b'\r', b'?'), 'CR in lf output')
    for nl in ('crlf', 'cr'):
        r = fmt(x, lang, cfgd, nl)
        if r.timeout:
            continue
        if not r.ok:
            fail('O4-' + nl, 'status', b'', 'exit %s' % r.status)
            continue
        rest = r.out.replace(TERM[nl], b'')
        if b'\r' in rest or b'\n' in rest:
            fail('O1-' + nl, 'foreign-terminator', r.out.replace(TERM[nl], b'\n'), 'stray CR/LF in %s output' % nl)
        elif r.out != R.replace(b'\n', TERM[nl]):
            fail('O4-' + nl, 'differs-from-lf-output', r.out.replace(TERM[nl], b'\n'), nl)
    inputs = {}
    for k in ('crlf', 'cr', 'mixed'):
        inputs[k] = conv(x, k, rng)
        r = fmt(inputs[k], lang, cfgd, 'lf')
        if r.timeout:
            continue
        if not r.ok:
            fail('O3-' + k, 'status', b'', 'exit %s' % r.status)
        elif r.out != R:
            fail('O3-' + k, 'conversion-changes-output', r.out, k)
    hdr_term = (case.extra or {}).get('hdr_term')
    for k in ('lf', 'crlf', 'cr'):
        src = x if k == 'lf' else inputs[k]
        if not BRK.search(src):
            continue
        if hdr_term and hdr_term != k:
            # the inserted file is read text too and its breaks are counted (reading "the input" as every text read): assert the source's
            # terminator only when it outnumbers the header's by more than the breaks the census does not count
            if x.count(b'\n') <= 1.25 * HDR.count(b'\n') + 3 or x.count(b'\n') < 12:
                continue
        r = fmt(src, lang, cfgd, 'auto')
        if r.timeout:
            continue
        if not r.ok:
            fail('O2-' + k, 'status', b'', 'exit %s' % r.status)
        elif r.out != R.replace(b'\n', TERM[k]):
            if 'disabled-region' in features() and 'no-break-outside-directives' in features():
                continue        # every countable break sits in a disabled region: the statement leaves `auto` undetermined
            fail('O2-' + k, 'auto-uniform', r.out.replace(TERM[k], b'\n') if k != 'lf' else r.out, 'auto on %s input' % k)
    mixed = inputs['mixed']
    cnt = {'crlf': len(re.findall(rb'\r\n', mixed)), 'cr': len(re.findall(rb'\r(?!\n)', mixed)), 'lf': len(re.findall(rb'(?<!\r)\n', mixed))}
    order = sorted(cnt, key=lambda k: -cnt[k])
    total = sum(cnt.values())
    # the census does not count breaks inside comments, continuations, strings and disabled regions: assert the majority only when its
    # margin is larger than a conservative bound on those (25 % of all breaks + 2)
    if total >= 8 and cnt[order[0]] - cnt[order[1]] > 0.25 * total + 2 + (HDR.count(b'\n') if hdr_term else 0):
        r = fmt(mixed, lang, cfgd, 'auto')
        if r.ok and r.out != R.replace(b'\n', TERM[order[0]]):
            fail('O2-mixed', 'auto-majority', r.out.replace(TERM[order[0]], b'\n') if order[0] != 'lf' else r.out, 'majority %s %r' % (order[0], cnt))
    multi = bool(re.search(rb'/\*[^*]*\n|\\\n', x))
    info = {'nontrivial': multi or R != x,
            'classes': ['lang:' + lang, 'origin:' + (case.origin or {}).get('kind', '?'), 'multi-line-construct' if multi else 'plain'],
            'sample': {'origin': case.origin, 'lang': lang, 'cfg': cfgd, 'breaks': x.count(b'\n'), 'mixed_census': cnt}}
    return info, fails


replay = family.replay_case(judge)
_EX = {}


def make_strategy():
    from hypothesis import strategies as st
    return st.tuples(gen_c.c_program(max_depth=3, max_funcs=2), st.integers(0, 2 ** 32 - 1), st.integers(0, 2 ** 32 - 1))


def to_case(v):
    toks, lseed, cseed = v
    cseed = family.cfg_seed(cseed)
    rng = random.Random(lseed)
    src, r = layout.render(toks, rng, 'C', dict(p_cmt=0.3, p_cont=0.8, blank=2))
    crng = random.Random(cseed)
    cfgd = {} if cseed % 3 == 0 else family.apply_exclusions(registry.random_cfg(crng, ('WS',), (0.02, 0.06)[cseed % 2]), _EX)
    cfgd.pop('newlines', None)
    return family.Case(src.encode('utf-8'), 'C', cfgd, {'kind': 'generated', 'layout_seed': lseed, 'cfg_seed': cseed})


def main(ctx):
    quick = ctx.tier == 'quick'
    _EX.update(family.exclusions(ctx))
    family.set_tier(ctx)
    ctx.rule = ('case = (input normalised to LF, language, config without `newlines`); 10-11 executions per case (4 settings x 4 encodings of the '
                'input as listed in the docstring); non-trivial = the input has a line break inside a block comment or a continuation, or the '
                'output differs from the input; distinct by sha256')
    ctx.assumptions = ['converting terminators converts them everywhere, also inside comments, continued lines and multi-line literals',
                       'UTF-16 inputs are left to C09 (their terminators are two-byte units)']
    core.replay_regress(ctx, replay)
    cases = []
    ncfg = 1 if quick else 8
    cfgs = [{}] + family.random_cfgs(core.subseed(ctx.useed, 'a'), ncfg, ('WS',), (0.02, 0.05), _EX, ctx.counts)
    # the comment writers have their own terminator handling: exercise the non-default one as well (statement: "arbitrary other options")
    cfgs.append({'cmt_indent_multi': 'false'})
    if not quick:
        cfgs += [{'cmt_indent_multi': 'false', 'cmt_star_cont': 'true'}, {'cmt_reflow_mode': '2', 'cmt_width': '60'}, {'cmt_cpp_to_c': 'true'}]
    for c in cfgs:
        c.pop('newlines', None)
    for rel, lang in corpus.files():
        src = corpus.read(rel)
        for i, cd in enumerate(cfgs):
            cases.append(family.Case(src, lang, cd, {'kind': 'corpus', 'file': rel, 'cfg_index': i}))
    # a file header inserted from a file with its own terminators (cmt_insert_file_header): a seeded sample of files that do not start
    # with a comment x the header file stored as LF / CRLF / CR
    hr = random.Random(core.subseed(ctx.useed, 'hdr'))
    cand = [(rel, lang) for rel, lang in corpus.files() if not corpus.read(rel).lstrip().startswith((b'/*', b'//'))]
    for rel, lang in hr.sample(cand, min(len(cand), 60 if quick else 600)):
        for t in ('lf', 'crlf', 'cr'):
            cases.append(family.Case(corpus.read(rel), lang, {}, {'kind': 'corpus', 'file': rel, 'cfg_index': 'hdr-' + t}, {'hdr_term': t}))
    raw = family.explore(ctx, judge, cases, batch=6)
    raw += family.hyp_explore(ctx, judge, make_strategy, to_case, shards=16, examples=(40 if quick else 1500))
    family.triage(ctx, judge, raw, minimise_src=8000, per_cluster=1)
