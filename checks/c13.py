"""C13  In-place rewriting is all-or-nothing.

Domain   scenarios = mode {--replace, --no-backup, -f X -o X} x input {changes (small, one write), changes (large, several
         writes), already formatted, makes formatting fail} x pre-existing state {none, backup+md5 of an earlier run followed
         by a user edit}.  For every scenario a strace census lists the N file-related system calls after start-up; then for
         EVERY k <= N: SIGKILL on entering call k, and call k failing with each errno that call can return.  thorough adds
         pairs (an error at one call, a kill at a later call of another kind).
Oracle   after each run: bytes(path) in {original, f(original)} exactly; unless --no-backup, bytes(path) != original =>
         backup exists and holds exactly the original; an injected error on the target / temp / backup / source =>
         exit status != 0; formatting failure => path untouched and status != 0.
"""
import os
import random

from vf import core, faults, run

BUILDS = ('fast',)
LEVEL = 'fault_enumeration'

CFG = 'indent_columns=3\nindent_with_tabs=0\nsp_arith=force\nsp_assign=force\n'
SMALL = b'int  a ;\nint   f(int x){return x+1;}\n'
PRIOR = b'int   old ;\n'


def large():
    out = []
    for i in range(1800):
        out.append('int  f%d( int a,int b ){ return a+b*%d ; }\n' % (i, i))
    return ''.join(out).encode()


INPUTS = {
    'small': SMALL,
    'large': None,          # filled lazily (> 64 KiB formatted)
    'formatted': None,      # f(SMALL)
    'fails': b'int a;\x00int b;\n',
    'empty_hdr': b'',       # a zero-length source; the configuration inserts a file header, so the run has something to write
    'utf16': b'\xff\xfe' + 'int  a ;\n'.encode('utf-16-le'),
}
MODES = {'replace': lambda n: ['--replace', n], 'no_backup': lambda n: ['--no-backup', n], 'f_o_same': lambda n: ['-f', n, '-o', n],
         'replace_mtime': lambda n: ['--replace', '--mtime', n], 'replace_ifc': lambda n: ['--replace', '--if-changed', n],
         'no_backup_ifc': lambda n: ['--no-backup', '--if-changed', n],
         # the same file under another spelling is "-o equal to -f" as well
         'f_o_dotslash': lambda n: ['-f', n, '-o', './' + n]}
NAME = 'src.c'


_REF = {}


def nonws(b):
    return bytes(x for x in b if x not in b' \t\r\n')


class _Ref:
    def __init__(self, r, trusted):
        self.ok, self.out, self.status, self.trusted = r.ok and trusted, r.out, r.status, trusted


HDR_TEXT = b'/* inserted header */\n'
HDR_CFG = 'cmt_insert_file_header=hdr.txt\n'


def fmt_ref(data, label=None):
    """reference f(original) from an ordinary stdin run.  CFG only changes white space, so a reference that differs from
    the input in anything but ASCII white space is not 'the complete formatted bytes' and is rejected (the path must then
    keep the original)."""
    k = core.sha(data, label == 'empty_hdr')
    if k not in _REF:
        if label == 'empty_hdr':
            # a zero-length source that gets content (an inserted file header): the reference is whatever the header run produces
            r = run.fmt(data, 'C', CFG + HDR_CFG, files={'hdr.txt': HDR_TEXT})[0]
            _REF[k] = _Ref(r, True)
            return _REF[k]
        r = run.fmt(data, 'C', CFG)[0]
        trusted = True
        if r.ok and not data.startswith(b'\xff\xfe'):
            trusted = nonws(r.out) == nonws(data)
        _REF[k] = _Ref(r, trusted)
    return _REF[k]


def setup(d, inp, pre, label=None):
    """create the scenario directory; returns the original bytes of the path"""
    run.write(os.path.join(d, 'c.cfg'), CFG + (HDR_CFG if label == 'empty_hdr' else ''))
    if label == 'empty_hdr':
        run.write(os.path.join(d, 'hdr.txt'), HDR_TEXT)
    p = os.path.join(d, NAME)
    if pre == 'prior':
        run.write(p, PRIOR)
        r = run.run(['-c', 'c.cfg', '-q', '--replace', NAME], cwd=d)
        assert r.ok, r.brief()
    run.write(p, inp)
    return inp


def input_bytes(label):
    if label == 'large':
        if INPUTS['large'] is None:
            INPUTS['large'] = large()
        return INPUTS['large']
    if label == 'formatted':
        if INPUTS['formatted'] is None:
            INPUTS['formatted'] = fmt_ref(SMALL).out
        return INPUTS['formatted']
    return INPUTS[label]


def classify(c):
    """which protocol file a census call touches"""
    p = c.path or ''
    if NAME + '.unc-backup.md5~' in p:
        return 'md5'
    if NAME + '.unc-backup~' in p:
        return 'backup'
    if NAME + '.uncrustify' in p:
        return 'temp'
    if p == NAME or p.endswith('/' + NAME):
        return 'target'
    if '->' in p:
        return 'temp'
    return None


def check_state(d, orig, formatted, mode, res, fault, call, fails, sig, rep):
    p = os.path.join(d, NAME)
    got = run.read(p) if os.path.exists(p) else None
    rep = dict(rep, status=res.status, signal=res.signal)
    if got is None:
        fails.append((dict(sig, relation='path-missing'), rep))
        return
    if got != orig and (formatted is None or got != formatted):
        fails.append((dict(sig, relation='path-neither-original-nor-formatted'),
                      dict(rep, got_len=len(got), orig_len=len(orig), fmt_len=None if formatted is None else len(formatted),
                           got_head=core.preview(got, 120))))
    if mode not in ('no_backup', 'no_backup_ifc') and got != orig:
        b = os.path.join(d, NAME + '.unc-backup~')
        bb = run.read(b) if os.path.exists(b) else None
        if bb != orig:
            fails.append((dict(sig, relation='backup-not-original'),
                          dict(rep, backup=None if bb is None else core.preview(bb, 120), backup_len=None if bb is None else len(bb))))
    if fault is not None and fault[0] == 'error' and call is not None:
        cls = classify(call)
        must_fail = False
        if cls in ('target', 'temp', 'backup'):
            if call.name in ('write', 'rename') or (call.name in ('openat', 'close') and call.mode == 'w'):
                must_fail = True           # the temporary file or the backup cannot be produced / moved into place
            if cls == 'target' and call.name in ('openat', 'read') and call.mode != 'w' and getattr(call, 'phase', 'load') == 'load':
                must_fail = True           # the source cannot be loaded
            # not required: errors while the target is re-read after the output was written (comparison with the temporary
            # file, md5 computation) - they do not prevent the rewrite, and backup.h documents the md5 as best effort
        if must_fail and res.status == 0 and res.signal is None:
            # the injected call really failed (strace does not execute it), so exit status 0 is a lie
            fails.append((dict(sig, relation='error-but-exit-0', syscall=call.name, file=cls, errno=fault[1]), rep))


class CallRec:
    """picklable copy of a census call"""

    def __init__(self, c):
        self.k, self.n, self.name, self.path, self.mode, self.text = c.k, c.n, c.name, c.path, c.mode, repr(c)
        self.phase = 'load'

    def __repr__(self):
        return self.text


def plan(case):
    """phase 1: census of one scenario + judgement of the fault-free run; returns (Part dict, [injection tasks])"""
    mode, inp, pre, thorough = case
    data = input_bytes(inp)
    ref = fmt_ref(data, inp)
    formatted = ref.out if ref.ok else None
    argv = ['-c', 'c.cfg', '-q'] + MODES[mode](NAME)
    part = core.Part()
    tasks = []
    with run.TempDir() as top:
        d = os.path.join(top, 'census')
        os.makedirs(d)
        orig = setup(d, data, pre, inp)
        r0, calls = faults.census(argv, d)
        fails = []
        sigbase = {'kind': 'scenario', 'mode': mode, 'input': inp, 'pre': pre}
        check_state(d, orig, formatted, mode, r0, None, None, fails, dict(sigbase, fault='none'), {'case': list(case), 'k': None})
        if formatted is None and r0.status == 0:
            fails.append((dict(sigbase, relation='format-failure-exit-0'), {'case': list(case)}))
        if formatted is not None and r0.ok and run.read(os.path.join(d, NAME)) != formatted:
            fails.append((dict(sigbase, relation='complete-run-not-formatted'), {'case': list(case)}))
        part.case((mode, inp, pre, 'complete'), True, ['fault:none'])
        start = next((c.k for c in calls if c.path and c.path.endswith('c.cfg')), 1)
        post = [CallRec(c) for c in calls if c.k >= start]
        first_w = next((c.k for c in post if c.mode == 'w' and c.name == 'openat' and classify(c) in ('temp', 'backup')), 1 << 30)
        for c in post:
            c.phase = 'load' if c.k < first_w else 'verify'
            fl = [('kill',)]
            if classify(c) is not None:        # errors are injected on the four protocol files and the source only
                for e in faults.ERRNOS.get(c.name, [])[:(5 if thorough else 2)]:
                    fl.append(('error', e))
            for fault in fl:
                tasks.append((case, 'single', c, fault, None))
        if thorough:
            for a in post:
                if a.name not in ('write', 'openat', 'close') or classify(a) is None:
                    continue
                for b in post:
                    if b.k > a.k and b.name != a.name and b.name in ('rename', 'close', 'openat', 'write', 'newfstatat'):
                        tasks.append((case, 'pair', a, ('error', faults.ERRNOS[a.name][0]), b))
        part.count('scenarios')
        part.count('census_calls', len(post))
        part.sample({'scenario': [mode, inp, pre], 'file_syscalls_after_startup': len(post), 'injected_runs': len(tasks),
                     'census': [repr(c) for c in post if classify(c)][:14]}, cap=1)
        for sig, rep in fails:
            part.fail(sig, dict(rep, kind='scenario'))
    return part.result(), tasks


def do_injection(task):
    case, kind, c, fault, b = task
    mode, inp, pre, thorough = case
    data = input_bytes(inp)
    ref = fmt_ref(data, inp)
    formatted = ref.out if ref.ok else None
    argv = ['-c', 'c.cfg', '-q'] + MODES[mode](NAME)
    part = core.Part()
    fails = []
    sigbase = {'kind': 'scenario', 'mode': mode, 'input': inp, 'pre': pre}
    with run.TempDir() as dd:
        orig = setup(dd, data, pre, inp)
        cls = classify(c)
        if kind == 'single':
            r = faults.inject(argv, dd, c, fault)
            if r.timeout:
                part.count('inconclusive')
                return part.result()
            sig = dict(sigbase, fault=fault[0], syscall=c.name, file=cls)
            rep = {'case': list(case), 'k': c.k, 'call': repr(c), 'fault': list(fault), 'inject': [c.name, c.n]}
            check_state(dd, orig, formatted, mode, r, fault, c, fails, sig, rep)
            part.case((mode, inp, pre, c.k, fault), cls is not None, ['fault:%s' % fault[0], 'file:%s' % cls, 'syscall:' + c.name])
        else:
            r = faults.inject_named(argv, dd, [(c.name, c.n, fault), (b.name, b.n, ('kill',))])
            if r.timeout:
                part.count('inconclusive')
                return part.result()
            sig = dict(sigbase, fault='pair', syscall=c.name + '+' + b.name, file=cls)
            check_state(dd, orig, formatted, mode, r, None, None, fails, sig, {'case': list(case), 'pair': [repr(c), repr(b)],
                                                                               'inject': [[c.name, c.n, list(fault)], [b.name, b.n, 'kill']]})
            part.case((mode, inp, pre, 'pair', c.k, b.k), True, ['fault:pair'])
    for sig, rep in fails:
        part.fail(sig, dict(rep, kind='injection', task_kind=kind))
    return part.result()


def replay(rep):
    """re-run the recorded injection (or, for a record without one, the whole scenario: census + all single faults)"""
    case = tuple(rep['case'])
    p, tasks = plan(case)
    out = list(p['failures'])
    inj = rep.get('inject')
    for t in tasks:
        c, fault = t[2], t[3]
        if inj and rep.get('task_kind') == 'single':
            if t[1] != 'single' or [c.name, c.n] != list(inj) or list(fault) != list(rep.get('fault', [])):
                continue
        elif t[1] != 'single' and rep.get('task_kind') != 'pair':
            continue
        out += do_injection(t)['failures']
    return out


def _plan(case):
    return plan(case)


def main(ctx):
    core.replay_regress(ctx, replay)
    thorough = ctx.tier == 'thorough'
    if thorough:
        modes, inputs, pres = list(MODES), ['small', 'large', 'formatted', 'fails', 'utf16', 'empty_hdr'], ['none', 'prior']
    else:
        modes, inputs, pres = ['replace', 'no_backup', 'f_o_same'], ['small', 'large', 'formatted', 'fails'], ['none', 'prior']
    cs = []
    for m in modes:
        for i in inputs:
            for p in pres:
                if not thorough and (i, p) in (('large', 'prior'), ('fails', 'prior')):
                    continue
                cs.append((m, i, p, thorough))
    if not thorough:
        # --if-changed takes another path to the output file: the small / large changing inputs in the quick tier as well
        for m in ('replace_ifc', 'no_backup_ifc'):
            for i in ('small', 'large'):
                cs.append((m, i, 'none', thorough))
        cs.append(('f_o_dotslash', 'small', 'none', thorough))
        cs.append(('replace', 'empty_hdr', 'none', thorough))
    tasks = []
    for res in core.pmap(_plan, cs):
        if isinstance(res, dict):        # worker exception
            ctx.merge(res)
            continue
        part, ts = res
        ctx.merge(part)
        tasks += ts
    random.Random(ctx.seed).shuffle(tasks)
    for part in core.pmap(do_injection, tasks, chunksize=8):
        ctx.merge(part)
    ctx.exhaustive = True
    ctx.rule = ('%d scenarios (mode x input x pre-existing state); per scenario every file-related syscall after start-up '
                '(strace census: openat, read, write, close, rename, unlink, newfstatat, lseek ...) is a SIGKILL point and an error '
                'point for each errno of its kind%s; the file-system invariant is evaluated after every run. non-trivial = the '
                'faulted call touches the target, the temporary file, the backup or the md5 file; distinct by (scenario, call '
                'ordinal, fault). exhaustive = all calls of every census were faulted.'
                % (len(cs), ' (all errnos) and error+kill pairs' if thorough else ' (two errnos per call in the quick tier)'))
    ctx.assumptions = ['crash points are enumerated at system-call granularity (the state between two calls is not observable)',
                       'a failing call is simulated by strace (the call is not executed and returns the errno); short writes cannot be '
                       'simulated faithfully with strace and are not part of the domain',
                       'durability across power loss (fsync) is not part of the property',
                       'exit status != 0 is required for injected errors on the target, temporary, backup and source files, not for '
                       'errors on the md5 file, which backup.h documents as best effort']
