"""C18  Indentation reflects block nesting.

Domain   Hypothesis-generated C programs (every statement kind: if / else-if chains, dangling else shapes, for, while, do-while,
         switch / case, bare blocks, declarations, macro uses, statements wrapped in #if groups; nesting depth up to the generator
         bound) whose statements each start a line with an indentation drawn independently per line (0..20 columns, spaces / tabs /
         mixed; preprocessor groups are left out: a brace inside an inactive branch legitimately moves the nesting uncrustify sees)
         x  indent_columns 1..16, indent_with_tabs 0..2, output_tab_size 1..16 and brace-placement options (nl_if_brace ...).
Oracle   (a) closed form on the visual column (tabs expanded with output_tab_size): a statement directly inside a brace-delimited
             block of nesting depth d starts in column 1 + d * indent_columns; an unbraced body one level deeper; `case` labels at the
             switch's level and their statements one level in (the defaults); a closing brace in the column of the statement that
             opened its block.  Only lines whose first token is that statement's first token are judged; the column comes from the
             real output bytes.
         (b) metamorphic: two renderings of the same token sequence that differ only in the indentation of the lines give outputs
             whose statement-start lines have identical leading whitespace.
Not asserted: continuation lines, trailing comments, preprocessor lines, initialiser braces, anything inside parentheses.
"""
import random
import re

from vf import core, family, gen_c, gen_lines, layout, registry, run, tokrel

BUILDS = ('fast',)
LEVEL = 'exploration'
BRACE_NL = ['nl_if_brace', 'nl_brace_else', 'nl_else_brace', 'nl_for_brace', 'nl_while_brace', 'nl_do_brace', 'nl_brace_while', 'nl_switch_brace',
            'nl_fdef_brace', 'nl_struct_brace', 'nl_elseif_brace', 'nl_else_if']
JUDGED = ('stmt', 'single', 'close', 'case', 'top', 'open', 'hdr', 'func', 'fclose', 'sclose', 'chdr', 'cclose', 'label')


def vcol(lead, ts):
    c = 0
    for ch in lead:
        if ch == 9:
            c = (c // ts + 1) * ts
        else:
            c += 1
    return c + 1


def judge(case):
    ex = case.extra
    cfgd = case.cfgd
    ic = int(cfgd.get('indent_columns', '8'))
    ts = int(cfgd.get('output_tab_size', '8'))
    stmts = ex['stmts']                  # [[line, depth, kind]] of the first rendering
    mode = ex.get('mode', 'closed-form')
    r, d = run.fmt(case.src, case.lang, case.cfg, dump=True)
    if r.timeout:
        return {'inconclusive': True}, []
    if not r.ok:
        return {'counts': ['refused'], 'classes': ['refused']}, []
    pre = tokrel.parse_dump(d.get('preout'))
    out_lines = r.out.split(b'\n')
    # first chunk of every input line, and the output line of every chunk
    first_on_in = {}
    outline = {}
    line = 1
    prev_nl = True
    starts_out_line = set()
    for c in pre:
        if c.type in tokrel.NL_TYPES:
            line += c.nl
            prev_nl = True
            continue
        key = (c.line, c.col)
        outline[key] = line
        if prev_nl:
            starts_out_line.add(key)
        prev_nl = False
        if c.text:
            if c.line not in first_on_in or c.col < first_on_in[c.line][1]:
                first_on_in[c.line] = (c.line, c.col, c.type)
        if '\n' in c.text:
            line += c.text.count('\n')
    fails = []
    seen = set()
    judged = 0
    deep = 0
    func_no = 0
    groups = {}
    lead_by_stmt = {}
    for i, (ln, depth, kind) in enumerate(stmts):
        f = first_on_in.get(ln)
        if f is None or kind not in JUDGED or tokrel.is_cmt(f[2]) or f[2] in ('PREPROC', 'IGNORED'):
            continue
        key = (f[0], f[1])
        if key not in starts_out_line:
            continue
        ol = outline[key]
        if ol - 1 >= len(out_lines):
            continue
        text = out_lines[ol - 1]
        lead = re.match(rb'[ \t]*', text).group(0)
        lead_by_stmt[i] = lead
        col = vcol(lead, ts)
        want = 1 + depth * ic
        if mode == 'braces':
            # indent_braces=true: a closing brace sits at the level of the body it closes - except the braces of a switch (indent_switch_body
            # is 0), of functions under indent_braces_no_func and of classes under indent_braces_no_class; with indent_class the class body
            # (everything between the class's first and last line) is one level in
            in_class = ex.get('class_body') and kind not in ('chdr', 'cclose')
            if in_class and cfgd.get('indent_class') == 'true':
                want += ic
            if kind == 'close' or (kind == 'fclose' and cfgd.get('indent_braces_no_func', 'false') != 'true') or (kind == 'hdr' and f[2] == 'BRACE_OPEN'):
                want += ic          # (a line that starts with the '{' of a bare block is a brace line as well)
            if kind == 'cclose' and cfgd.get('indent_class') == 'true' and cfgd.get('indent_braces_no_class', 'false') != 'true':
                want += ic
        if kind == 'label':
            # indent_label: > 0 an absolute column; <= 0 that many columns to the left of the block's statements (not left of column 1)
            il = int(cfgd.get('indent_label', '1'))
            want = il if il > 0 else max(1, want + il)
        if kind == 'single' and f[2] == 'ELSEIF':
            want -= ic          # documented default (indent_else_if=false): 'else' + line break + 'if' is indented as 'else if'
        judged += 1
        if depth >= 2:
            deep += 1
        if kind == 'func':
            func_no += 1
        if mode == 'constancy':
            # a brace-indent style without a closed form here: statements of equal depth in one function share a column
            if kind == 'stmt':
                prev = groups.setdefault((func_no, depth), (col, ol))
                if prev[0] != col and 'const' not in seen:
                    seen.add('const')
                    fails.append(('same-depth-same-column', {'class': 'columns-differ-at-equal-depth', 'at': ['depth %d' % depth], 'got': ['col %d vs %d' % (prev[0], col)],
                                                             'index': ol, 'in': ['output line %d: col %d' % (prev[1], prev[0])], 'out': [repr(text[:70])],
                                                             'first_in': kind, 'first_out': f[2]}))
            continue
        if col != want:
            k = (kind, 'deeper' if col > want else 'shallower')
            if k not in seen:
                seen.add(k)
                fails.append(('closed-form', {'class': 'column-%s' % kind, 'at': ['depth %d' % depth, 'want %d' % want], 'got': ['col %d' % col], 'index': ol,
                                              'in': ['input line %d: depth %d kind %s, indent_columns=%d' % (ln, depth, kind, ic)],
                                              'out': [repr(text[:70])], 'first_in': kind, 'first_out': f[2]}))
    # (b) second rendering, different indentation only
    if ex.get('src2_b64'):
        src2 = core.unb64(ex['src2_b64'])
        r2, d2 = run.fmt(src2, case.lang, case.cfg, dump=True)
        if r2.ok and not r2.timeout:
            o1, o2 = r.out.split(b'\n'), r2.out.split(b'\n')
            if len(o1) != len(o2):
                fails.append(('indentation-invariance', {'class': 'line-count-differs', 'at': ['%d' % len(o1)], 'got': ['%d' % len(o2)], 'index': 0,
                                                         'in': ['%d lines' % len(o1)], 'out': ['%d lines' % len(o2)], 'first_in': '', 'first_out': ''}))
            else:
                for i, lead in lead_by_stmt.items():
                    pass
                # statement-start lines by output line number of the first rendering
                for i, (ln, depth, kind) in enumerate(stmts):
                    if i not in lead_by_stmt:
                        continue
                    f = first_on_in.get(ln)
                    ol = outline[(f[0], f[1])]
                    l2 = re.match(rb'[ \t]*', o2[ol - 1]).group(0)
                    if o2[ol - 1].lstrip() == o1[ol - 1].lstrip() and l2 != lead_by_stmt[i]:
                        if 'inv' not in seen:
                            seen.add('inv')
                            fails.append(('indentation-invariance', {'class': 'placement-depends-on-original-indent', 'at': [kind], 'got': [], 'index': ol,
                                                                     'in': [repr(o1[ol - 1][:60])], 'out': [repr(o2[ol - 1][:60])], 'first_in': kind,
                                                                     'first_out': ''}))
                        break
        elif not r2.timeout:
            fails.append(('indentation-invariance', {'class': 'acceptance-depends-on-indent', 'at': [], 'got': [str(r2.status)], 'index': 0, 'in': ['exit 0'],
                                                     'out': ['exit %s' % r2.status], 'first_in': '', 'first_out': ''}))
    info = {'nontrivial': judged >= 5 and deep >= 1,
            'classes': ['lang:' + case.lang, 'mode:' + mode, 'indent_columns:%d' % ic, 'indent_with_tabs:%s' % cfgd.get('indent_with_tabs', '1'), 'judged>=20' if judged >= 20 else 'judged<20',
                        'depth>=3' if any(dp >= 3 for _l, dp, _k in stmts) else 'depth<3'],
            'sample': {'cfg': cfgd, 'statements_judged': judged, 'deep': deep, 'input_head': core.preview(case.src, 200)}}
    return info, fails


replay = family.replay_case(judge)


def make_strategy():
    from hypothesis import strategies as st
    return st.tuples(gen_c.c_program(max_depth=6, max_funcs=2, lits=False, pp=False, safe_else=True), st.integers(0, 2 ** 32 - 1), st.integers(0, 2 ** 32 - 1), st.integers(0, 2 ** 32 - 1))


def to_case(v):
    toks, lseed, iseed, cseed = v
    cseed = family.cfg_seed(cseed)
    style = dict(p_cmt=0.04, p_join=0.0, p_nl_slot=0.1, p_brace_nl=0.6, blank=1, multi_cmt=False, indent='random', p_trail=0.05)
    src1, r1 = layout.render(toks, random.Random(lseed), 'C', style, indent_rng=random.Random(iseed))
    src2, r2 = layout.render(toks, random.Random(lseed), 'C', style, indent_rng=random.Random(iseed + 1))
    crng = random.Random(cseed)
    cfgd = {'indent_columns': str(crng.choice([1, 2, 3, 4, 4, 5, 8, 8, 12, 16])), 'indent_with_tabs': str(crng.choice([0, 1, 2])),
            'output_tab_size': str(crng.choice([1, 2, 3, 4, 8, 8, 16]))}
    for o in crng.sample(BRACE_NL, crng.randint(0, 4)):
        cfgd[o] = crng.choice(['add', 'remove', 'force'])
    if src1.count('\n') != src2.count('\n'):
        return None
    return family.Case(src1.encode('utf-8'), 'C', cfgd, {'kind': 'generated', 'layout_seed': lseed, 'indent_seed': iseed, 'cfg_seed': cseed},
                       {'stmts': [list(x) for x in r1.stmt_lines], 'src2_b64': core.b64(src2.encode('utf-8'))})


def make_strategy_lines():
    from hypothesis import strategies as st
    return st.tuples(st.sampled_from(['CPP', 'JAVA', 'C', 'CPP']), st.booleans(), st.integers(0, 2 ** 32 - 1), st.integers(0, 2 ** 32 - 1)).flatmap(
        lambda t: st.tuples(st.just(t), gen_lines.program(t[0], allow_switch=not t[1], force_braces=t[1], labels=True, pp=True)))


def to_case_lines(v):
    (lang, brace_mode, iseed, cseed), lines = v
    cseed = family.cfg_seed(cseed)
    src1 = gen_lines.render(lines, random.Random(iseed))
    src2 = gen_lines.render(lines, random.Random(iseed + 1))
    crng = random.Random(cseed)
    cfgd = {'indent_columns': str(crng.choice([1, 2, 3, 4, 4, 5, 8, 8, 12, 16])), 'indent_with_tabs': str(crng.choice([0, 1, 2])),
            'output_tab_size': str(crng.choice([1, 2, 3, 4, 8, 8, 16]))}
    for o in crng.sample(BRACE_NL + ['nl_try_brace', 'nl_brace_catch', 'nl_catch_brace', 'nl_brace_finally', 'nl_finally_brace'], crng.randint(0, 4)):
        cfgd[o] = crng.choice(['add', 'remove', 'force'])
    if crng.random() < 0.5:
        cfgd['indent_label'] = str(crng.choice([1, 2, 5, 0, -1, -2, -3, -4, -8]))
    extra = {'stmts': [[i + 1, d, k] for i, (d, k, _t) in enumerate(lines)], 'src2_b64': core.b64(src2.encode('utf-8'))}
    if brace_mode:
        cfgd['indent_brace'] = str(crng.choice([1, 2, 4]))
        extra['mode'] = 'constancy'
    elif crng.random() < 0.3:
        # the indent_braces family (braces at body level, with its exemptions) has a closed form too
        cfgd['indent_braces'] = 'true'
        for o in ('indent_braces_no_func', 'indent_braces_no_class', 'indent_braces_no_struct'):
            cfgd[o] = crng.choice(['true', 'false'])
        if lang == 'JAVA':
            cfgd['indent_class'] = crng.choice(['true', 'false'])
            extra['class_body'] = True
        for o in list(cfgd):
            if o.startswith('nl_') :
                cfgd.pop(o)        # (brace lines stay where the generator put them: '}' first on its line)
        extra['mode'] = 'braces'
    return family.Case(src1.encode('utf-8'), lang, cfgd, {'kind': 'generated-lines', 'indent_seed': iseed, 'cfg_seed': cseed}, extra)


def main(ctx):
    quick = ctx.tier == 'quick'
    ctx.rule = ('case = (generated program rendered twice with different per-line indentation, indent options); 2 executions; every judged '
                'statement-start line is an evaluation of the closed form; non-trivial = at least 5 statement lines judged, one at depth >= 2 '
                '(the input indentation is random, so it differs from the expected one); distinct by sha256')
    ctx.assumptions = ['expected depth per statement comes from the generator (annotated token list), not from the tool',
                       'defaults read as: class / namespace bodies are not generated; case labels at switch level, their bodies one level in']
    family.set_tier(ctx)
    core.replay_regress(ctx, replay)
    raw = family.hyp_explore(ctx, judge, make_strategy, to_case, shards=16, examples=(400 if quick else 8000))
    raw += family.hyp_explore(ctx, judge, make_strategy_lines, to_case_lines, shards=16, examples=(400 if quick else 8000))
    family.triage(ctx, judge, raw, minimise_src=False)
