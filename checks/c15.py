"""C15  Configuration round-trips: a saved config reloads to the same settings.

Domain   every option x every enumerated / boundary / string value singly (exhaustive), every directive kind,
         equivalent spellings, option references, random whole configs.
Oracle   D(c) = --update-config output.  (1) values(D(c)) == values(D(empty)) except the set options, which hold the set
         value; (2) loading D(c) is silent; (3) D(D(c)) == D(c) bytewise; (4) same with --update-config-with-doc;
         (5) probes format byte-identically under c and D(c); (6) all spellings give the same D.
"""
import os
import random

from vf import cfgdump, core, corpus, registry, run

BUILDS = ('fast',)
LEVEL = 'exploration'

STR_VALUES = [('plain', 'abc'), ('space', 'a b  c'), ('hash', 'a#b'), ('equals', 'a=b'), ('backslash', 'a\\b'),
              ('dquote', 'a"b'), ('squote', "a'b"), ('regex', r'^(x|y)+[0-9]*\.h$'), ('comma', 'a,b'), ('empty', ''),
              ('trail_backslash', 'ab\\'), ('lead_space', ' *X*')]


def quote_cfg(s):
    return '"' + s.replace('\\', '\\\\').replace('"', '\\"') + '"'


def D(cfg_text, doc=False, extra=(), cfgname='c.cfg'):
    with run.TempDir() as d:
        p = os.path.join(d, cfgname)
        run.write(p, cfg_text)
        r = run.run(['-c', p] + list(extra) + ['--update-config-with-doc' if doc else '--update-config'], cwd=d)
        return r


_defaults = {}


def defaults(doc=False):
    if doc not in _defaults:
        r = D('', doc)
        _defaults[doc] = (cfgdump.plain(cfgdump.parse(r.out)[0]), cfgdump.parse(r.out)[1], r)
    return _defaults[doc]


def canon(o, v):
    if o['type'] in ('enum', 'bool'):
        return v.lower()
    if o['type'] == 'num':
        return str(int(v))
    return v


def check_roundtrip(cfg_text, expect, label, sigbase, fails, doc_too=True, extras_expected=None):
    """expect: dict name -> canonical value that must differ from defaults (others must equal defaults)"""
    for doc in ((False, True) if doc_too else (False,)):
        r1 = D(cfg_text, doc)
        tag = 'doc' if doc else 'plain'
        if not r1.ok:
            fails.append((dict(sigbase, relation='dump-exit', mode=tag), {'cfg': cfg_text, 'doc': doc, 'res': r1.brief()}))
            continue
        vals, extras = cfgdump.parse(r1.out)
        pv = cfgdump.plain(vals)
        dv, dextras, _ = defaults(doc)
        bad = []
        for k, v in dv.items():
            want = expect.get(k, v)
            if pv.get(k) != want:
                bad.append((k, want, pv.get(k)))
        for k in pv:
            if k not in dv:
                bad.append((k, None, pv[k]))
        if bad:
            fails.append((dict(sigbase, relation='value', mode=tag),
                          {'cfg': cfg_text, 'doc': doc, 'mismatch(name,want,got)': bad[:5]}))
        if extras_expected is not None and sorted(extras) != sorted(dextras + extras_expected):
            pass  # spelling of extras is checked through the reload below, not against a fixed text
        # reload
        r2 = D(r1.out, doc)
        if not r2.ok:
            fails.append((dict(sigbase, relation='reload-exit', mode=tag), {'cfg': cfg_text, 'doc': doc, 'res': r2.brief()}))
            continue
        if r2.err.strip():
            fails.append((dict(sigbase, relation='reload-diagnostic', mode=tag),
                          {'cfg': cfg_text, 'doc': doc, 'stderr': core.preview(r2.err)}))
        if r2.out != r1.out:
            v2, e2 = cfgdump.parse(r2.out)
            diff = [(k, pv.get(k), cfgdump.plain(v2).get(k)) for k in set(pv) | set(v2) if pv.get(k) != cfgdump.plain(v2).get(k)]
            ediff = sorted(set(extras) ^ set(e2))
            fails.append((dict(sigbase, relation='idempotence', mode=tag),
                          {'cfg': cfg_text, 'doc': doc, 'value_diff': diff[:5], 'extras_diff': ediff[:6]}))
    return


PROBES = None


def probes():
    global PROBES
    if PROBES is None:
        want = [('c/bugs-1.c', 'C'), ('cpp/templates.cpp', 'CPP'), ('oc/oc-split.m', 'OC'), ('java/Java8DoubleColon.java', 'JAVA'),
                ('cs/simple.cs', 'CS')]
        have = dict(corpus.files())
        PROBES = []
        for rel, lang in want:
            if rel in have:
                PROBES.append((rel, lang, corpus.read(rel)))
        if len(PROBES) < 3:
            rng = random.Random(1)
            for rel, lang in corpus.select(rng, 4, maxsize=6000):
                PROBES.append((rel, lang, corpus.read(rel)))
    return PROBES


def behaviour(cfg_text, sigbase, fails, extra_args=()):
    r1 = D(cfg_text)
    if not r1.ok:
        return 0
    n = 0
    for rel, lang, src in probes():
        a, _ = run.fmt(src, lang, cfg_text, args=extra_args)
        b, _ = run.fmt(src, lang, r1.out)
        n += 1
        if a.timeout or b.timeout:
            continue
        if (a.status, a.signal, a.out) != (b.status, b.signal, b.out):
            fails.append((dict(sigbase, relation='behaviour'),
                          {'cfg': cfg_text, 'probe': rel, 'lang': lang, 'a': a.brief(), 'b': b.brief(),
                           'a_out': core.preview(a.out), 'b_out': core.preview(b.out)}))
            break
    return n


# ----------------------------------------------------------------------------------------------- case kinds
def do_single(case):
    name, value, vclass, probe = case
    o = registry.by_name()[name]
    fails = []
    if o['type'] == 'str':
        cfg = '%s = %s\n' % (name, quote_cfg(value))
    else:
        cfg = '%s = %s\n' % (name, value)
    sig = {'kind': 'single', 'otype': o['type'], 'vclass': vclass}
    check_roundtrip(cfg, {name: canon(o, value)}, name, sig, fails)
    if probe and registry.klass(name) not in ('FILE', 'DEBUG'):
        behaviour(cfg, sig, fails)
    return fails


def do_spelling(case):
    name, value = case
    o = registry.by_name()[name]
    v = quote_cfg(value) if o['type'] == 'str' else value
    ref = D('%s=%s\n' % (name, v))
    fails = []
    spell = {'space': '%s %s\n' % (name, v), 'eq_spaces': '  %s   =   %s   \n' % (name, v), 'upper': '%s=%s\n' % (name.upper(), v),
             'mixed': '%s=%s\n' % (name.title(), v), 'tab': '%s\t%s\n' % (name, v), 'comment': '%s=%s # c\n' % (name, v),
             'comma': '%s,%s\n' % (name, v)}
    if o['type'] in ('enum', 'bool'):
        spell['value_upper'] = '%s=%s\n' % (name, value.upper())
    for k, text in spell.items():
        r = D(text)
        if (r.status, r.out) != (ref.status, ref.out) or r.err.strip():
            fails.append(({'kind': 'spelling', 'spelling': k, 'otype': o['type']},
                          {'cfg': text, 'ref_cfg': '%s=%s' % (name, v), 'res': r.brief()}))
    if True:        # (--set takes the value as it is: blanks, '=' and the empty string are values like any other)
        for sp_, nm in (('--set', name), ('--set-upper', name.upper()), ('--set-mixed', name.title())):
            r = D('', extra=['--set', '%s=%s' % (nm, value)])
            if (r.status, r.out) != (ref.status, ref.out):
                fails.append(({'kind': 'spelling', 'spelling': sp_, 'otype': o['type']},
                              {'cfg': '--set %s=%s' % (nm, value), 'res': r.brief()}))
    return fails


def do_reference_rt(case):
    name, other, oval, prefix = case
    cfg = '%s=%s\n%s=%s%s\n' % (other, oval, name, prefix, other)
    fails = []
    sig = {'kind': 'reference_rt', 'prefix': prefix}
    r1 = D(cfg)
    if not r1.ok:
        return [(dict(sig, relation='dump-exit'), {'cfg': cfg, 'res': r1.brief()})]
    r2 = D(r1.out)
    if not r2.ok or r2.err.strip():
        fails.append((dict(sig, relation='reload-diagnostic'), {'cfg': cfg, 'stderr': core.preview(r2.err)}))
    if r2.out != r1.out:
        a, b = cfgdump.plain(cfgdump.parse(r1.out)[0]), cfgdump.plain(cfgdump.parse(r2.out)[0])
        fails.append((dict(sig, relation='idempotence'), {'cfg': cfg, 'value_diff': [(k, a[k], b.get(k)) for k in a if a[k] != b.get(k)][:5]}))
    return fails


def do_reference(case):
    name, other, oval, prefix = case
    reg = registry.by_name()
    o, p = reg[name], reg[other]
    fails = []
    if prefix == '':
        want = oval
    elif o['type'] == 'bool':
        want = 'false' if oval == 'true' else 'true'
    else:
        want = str(-int(oval))
    b = D('%s=%s\n%s=%s\n' % (other, oval, name, want))
    # the referenced option named in lower, upper and mixed case ("option names in any case, and references to other options")
    for case_, ref in (('lower', other), ('upper', other.upper()), ('mixed', other.title())):
        a = D('%s=%s\n%s=%s%s\n' % (other, oval, name, prefix, ref))
        if (a.status, a.out) != (b.status, b.out) or a.err.strip():
            fails.append(({'kind': 'reference', 'otype': o['type'], 'prefix': prefix, 'ref_case': case_},
                          {'cfg': '%s=%s ; %s=%s%s' % (other, oval, name, prefix, ref), 'want': want, 'res': a.brief()}))
    return fails


DIRECTIVES = [
    ('type', 'type MYTYPE\n'), ('type3', 'type T_A T_B T_C\n'), ('type_quoted', 'type "T_Q"\n'),
    ('set', 'set FUNC_CALL mycall\n'), ('set2', 'set TYPE aa bb\n'), ('set_word', 'set WORD myword\n'),
    ('set_kw', 'set IF my_if\n'), ('set_macro_func', 'set MACRO_FUNC MFN\n'),
    ('macro-open', 'macro-open BEGIN_X\n'), ('macro-close', 'macro-close END_X\n'), ('macro-else', 'macro-else ELSE_X\n'),
    ('macro_all', 'macro-open MO\nmacro-else ME\nmacro-close MC\n'),
    ('file_ext', 'file_ext CPP .xx\n'), ('file_ext2', 'file_ext C .c1 .c2\n'), ('file_ext_oc', 'file_ext OC+ .omm\n'),
    ('file_ext_lower', 'file_ext cpp .ipp\n'), ('file_ext_oc_lower', 'file_ext oc+ .omm2\n'), ('file_ext_mixed', 'file_ext Java .jv2\n'),
    ('cmd_upper', 'TYPE UPT\nSET FUNC_CALL upcall\nMACRO-OPEN UMO\nMACRO-CLOSE UMC\nFILE_EXT CPP .upx\n'),
    ('set_lower', 'set func_call lowcall\n'), ('type_sep_comma', 'type TC1,TC2\n'), ('type_eq', 'type = TE1\n'),
    ('file_ext_quoted', 'file_ext CPP ".q x"\n'), ('type_escaped_space', 'type T\\ SP\n'),
    ('mixed', 'type U32 U16\nset FUNC_CALL_USER _x\nmacro-open MO\nmacro-close MC\nfile_ext JAVA .jav\nindent_columns=3\n'),
]

# known finding C15-K1 (words containing blanks are dumped unquoted): kept as directive cases, not drawn into random configs
EXCLUDED_FROM_RANDOM = ('file_ext_quoted', 'type_escaped_space')

DIRECTIVE_PROBE = b'''template<class T> class A { public: int x; A<T> * p; };
int g = b<c>(d); UPT * q; TC1 * r; TE1 * s;
void h() { upcall (1); lowcall (2); }
UMO
x = 1;
UMC
MYTYPE a; T_A *b; T_Q c; U32 d; U16 * e;
int f(int x) { my_if (x) { mycall (x); _x ( x ); } MFN(x)
BEGIN_X
a = 1;
ELSE_X
b = 2;
END_X
MO
c = 3;
ME
d = 4;
MC
return aa * x; }
'''


def do_directive(case):
    label, text = case
    fails = []
    sig = {'kind': 'directive', 'directive': label.rstrip('0123456789')}
    check_roundtrip(text, {'indent_columns': '3'} if 'indent_columns' in text else {}, label, sig, fails)
    r0 = D(text)
    if r0.ok:
        _, extras = cfgdump.parse(r0.out)
        import shlex
        words = []
        for line in text.splitlines():
            try:
                parts = shlex.split(line.replace(',', ' ').replace('=', ' '))
            except ValueError:
                continue
            if not parts:
                continue
            cmd = parts[0].lower()
            if cmd in ('type', 'macro-open', 'macro-close', 'macro-else'):
                words += parts[1:] if cmd == 'type' else parts[1:2]
            elif cmd in ('set', 'file_ext'):
                words += parts[2:]
        dumped = ' '.join(extras)
        missing = [w for w in words if w not in dumped]
        if missing:
            fails.append((dict(sig, relation='directive-lost-in-dump'), {'cfg': text, 'missing': missing, 'extras': extras[-12:]}))
    # behaviour on a probe that uses the words
    r1 = D(text)
    if r1.ok:
        for name in ('p.c', 'p.xx', 'p.c1', 'p.omm', 'p.jav', 'p.ipp', 'p.omm2', 'p.jv2', 'p.upx', 'p.q x'):
            a = run.fmt(DIRECTIVE_PROBE, 'C', text, name=name)[0] if name == 'p.c' else _assume(DIRECTIVE_PROBE, text, name)
            b = run.fmt(DIRECTIVE_PROBE, 'C', r1.out, name=name)[0] if name == 'p.c' else _assume(DIRECTIVE_PROBE, r1.out, name)
            if (a.status, a.out) != (b.status, b.out):
                fails.append((dict(sig, relation='behaviour'),
                              {'cfg': text, 'assume': name, 'a': a.brief(), 'b': b.brief(), 'a_out': core.preview(a.out),
                               'b_out': core.preview(b.out)}))
                break
    return fails


def _assume(src, cfg, name):
    with run.TempDir() as d:
        p = os.path.join(d, 'c.cfg')
        run.write(p, cfg)
        return run.run(['-c', p, '-q', '--assume', name], stdin=src, cwd=d)


def do_random(case):
    seed, density = case
    rng = random.Random(seed)
    reg = registry.load()
    d = {}
    for o in reg:
        if rng.random() > density:
            continue
        if o['type'] == 'str':
            d[o['name']] = rng.choice(STR_VALUES)[1]
        else:
            d[o['name']] = registry.draw_value(rng, o)
    registry.fix_nl_max(d)
    lines = []
    byname = registry.by_name()
    for k, v in d.items():
        lines.append('%s = %s\n' % (k, quote_cfg(v) if byname[k]['type'] == 'str' else v))
    extra = []
    for label, text in rng.sample([d for d in DIRECTIVES if d[0] not in EXCLUDED_FROM_RANDOM], rng.randint(0, 3)):
        lines.append(text)
    rng.shuffle(lines)
    cfg = ''.join(lines)
    fails = []
    expect = {k: canon(byname[k], v) for k, v in d.items()}
    # later lines win for 'indent_columns=3' inside the mixed directive
    if 'indent_columns=3\n' in cfg:
        idx = [i for i, l in enumerate(lines) if 'indent_columns' in l]
        last = lines[idx[-1]]
        expect['indent_columns'] = '3' if 'indent_columns=3' in last else canon(byname['indent_columns'], d['indent_columns'])
    sig = {'kind': 'random'}
    check_roundtrip(cfg, expect, 'random', sig, fails, doc_too=(seed % 4 == 0))
    if seed % 3 == 0 and not any(registry.klass(k) in ('FILE', 'DEBUG', 'ENC') or k.startswith('warn_') for k in d):
        behaviour(cfg, sig, fails)
    return fails, len(d)


# ----------------------------------------------------------------------------------------------- driver
def work(chunk):
    p = core.Part()
    for kind, case in chunk:
        try:
            n = 0
            if kind == 'single':
                fails = do_single(case)
                key = ('single', case[0], case[1])
                nt = case[1] != registry.by_name()[case[0]]['default']
                cls = ['single:' + registry.by_name()[case[0]]['type']]
            elif kind == 'spelling':
                fails = do_spelling(case)
                key, nt, cls = ('spelling',) + tuple(case), True, ['spelling']
            elif kind == 'reference':
                fails = do_reference(case)
                key, nt, cls = ('reference',) + tuple(case), True, ['reference' + case[3]]
            elif kind == 'reference_rt':
                fails = do_reference_rt(case)
                key, nt, cls = ('reference_rt',) + tuple(case), True, ['reference_rt' + case[3]]
            elif kind == 'directive':
                fails = do_directive(case)
                key, nt, cls = ('directive', case[0]), True, ['directive']
            else:
                fails, n = do_random(case)
                key, nt, cls = ('random',) + tuple(case), n > 0, ['random']
            p.case(key, nt, cls)
            if kind in ('directive', 'random') or (kind == 'single' and case[3]):
                p.sample({'kind': kind, 'case': [str(x)[:80] for x in case]}, cap=2)
            for sig, rep in fails:
                rep = dict(rep, kind=kind, case=list(case))
                p.fail(sig, rep)
        except Exception as e:  # infrastructure
            import traceback
            p.infra('%s %r: %s' % (kind, case, traceback.format_exc()[-600:]))
    return p.result()


def cases(ctx):
    rng = random.Random(core.subseed(ctx.seed, 'c15'))
    reg = registry.load()
    out = []
    singles = []
    for o in reg:
        if o['type'] == 'str':
            for vc, v in STR_VALUES:
                singles.append((o['name'], v, vc))
        else:
            for v in registry.values(o, wide=True):
                singles.append((o['name'], v, 'boundary' if o['type'] == 'num' else 'enum'))
    nprobe = len(singles) if ctx.tier == 'thorough' else 500
    probe_idx = set(rng.sample(range(len(singles)), min(nprobe, len(singles))))
    for i, s in enumerate(singles):
        out.append(('single', s + (i in probe_idx,)))
    # spellings
    pool = [o for o in reg]
    for o in (pool if ctx.tier == 'thorough' else rng.sample(pool, 150)):
        if o['type'] == 'str':
            v = 'abc'
        else:
            vs = [x for x in registry.values(o) if x != o['default']] or registry.values(o)
            v = rng.choice(vs)
        out.append(('spelling', (o['name'], v)))
    # every string option x every string value class in every spelling (config line forms and --set)
    for o in reg:
        if o['type'] == 'str':
            for _vc, sv in STR_VALUES:
                if sv != 'abc':
                    out.append(('spelling', (o['name'], sv)))
    # references: same-type pairs
    bytype = {}
    for o in reg:
        t = o['type'] if o['type'] != 'enum' else 'enum:' + '|'.join(o['choices'])
        bytype.setdefault(t, []).append(o)
    nref = 1500 if ctx.tier == 'thorough' else 250
    for _ in range(nref):
        t = rng.choice([k for k, v in bytype.items() if len(v) >= 2 and k != 'str'])
        a, b = rng.sample(bytype[t], 2)
        prefix = ''
        if t == 'bool':
            prefix = rng.choice(['', '!', '~', '-'])
            oval = rng.choice(['true', 'false'])
        elif t == 'num':
            # the referenced value must be valid for both options
            lo = max(x['min'] if x['min'] is not None else 0 for x in (a, b))
            hi = min(x['max'] if x['max'] is not None else lo + 16 for x in (a, b))
            if hi < lo:
                continue
            oval = str(rng.randint(lo, min(hi, lo + 16)))
            if a['min'] is not None and a['min'] < 0 and rng.random() < 0.5 and -int(oval) >= a['min']:
                prefix = '-'
        else:
            oval = rng.choice(a['choices'])
        out.append(('reference', (a['name'], b['name'], oval, prefix)))
    # references whose value may be outside the target's range (must be refused or accepted consistently, never half)
    nums = [o for o in reg if o['type'] == 'num']
    for _ in range(3000 if ctx.tier == 'thorough' else 400):
        a, b = rng.sample(nums, 2)
        blo = b['min'] if b['min'] is not None else 0
        bhi = b['max'] if b['max'] is not None else blo + 5000
        v = rng.choice([blo, bhi, rng.randint(blo, bhi), min(bhi, (a['max'] or 0) + 1), max(blo, min(bhi, (a['min'] or 0) - 1))])
        out.append(('reference_rt', (a['name'], b['name'], str(v), rng.choice(['', '', '-']))))
    for d in DIRECTIVES:
        out.append(('directive', d))
    nrand = 4000 if ctx.tier == 'thorough' else 300
    for i in range(nrand):
        out.append(('random', (core.subseed(ctx.seed, 'c15r', i), rng.choice([0.02, 0.05, 0.15, 0.4, 1.0]))))
    return out, len(singles)


def replay(rep):
    kind, case = rep['kind'], rep['case']
    if kind == 'single':
        return do_single(tuple(case[:3]) + (True,))
    if kind == 'spelling':
        return do_spelling(tuple(case))
    if kind == 'reference':
        return do_reference(tuple(case))
    if kind == 'reference_rt':
        return do_reference_rt(tuple(case))
    if kind == 'directive':
        return do_directive(tuple(case))
    return do_random(tuple(case))[0]


def main(ctx):
    core.replay_regress(ctx, replay)
    cs, nsingle = cases(ctx)
    rng = random.Random(ctx.seed)
    rng.shuffle(cs)
    for part in core.pmap(work, core.chunks(cs, core.NPROC * 8)):
        ctx.merge(part)
    ctx.rule = ('every option x every enumerated / numeric boundary / string value singly (%d settings, all visited), all %d '
                'directive forms, seeded spellings, option references and random whole configs; oracle: dump values == set '
                'values with all other options at the dumped defaults, silent reload, D(D(c))==D(c) bytewise (plain and '
                'with-doc), probes format identically under c and D(c).  non-trivial = a non-default value, a directive, a '
                'spelling or a reference; distinct by (kind, option, value).' % (nsingle, len(DIRECTIVES)))
    ctx.exhaustive = False
    ctx.extra['single_settings_exhaustive'] = True
    ctx.extra['single_settings'] = nsingle
    ctx.assumptions = ['option list, ranges and choices are read from the binary under test (--universalindent)',
                       'non-ASCII string values are refused by the loader and therefore not part of the round-trip domain']

