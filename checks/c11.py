"""C11  Files in one invocation are formatted independently of each other.

Domain   a pool of ~45 synthetic "poisoners" (each built to leave one piece of per-file state dirty at end of file) and
         seeded corpus files of every language; ALL ordered pairs of pool members are made adjacent in batch invocations
         (positional and -F), per configuration and per language mode (by extension / forced -l); plus seeded random longer
         sequences.
Oracle   differential: the output of each file in the batch (collected with --prefix) is byte-identical to the output of
         a separate invocation on that file alone with the same options; the batch exits 0 when every single run does.
"""
import os
import random

from vf import core, corpus, registry, run

BUILDS = ('fast',)
LEVEL = 'exploration'

EXT = {'C': '.c', 'CPP': '.cpp', 'D': '.d', 'CS': '.cs', 'JAVA': '.java', 'OC': '.m', 'OC+': '.mm', 'VALA': '.vala', 'PAWN': '.pawn',
       'ECMA': '.es'}

U16 = b'\xff\xfe' + 'int  a ;\nint   b ;\n'.encode('utf-16-le')

SYNTH = [
    # label, extension, bytes
    ('indent_off_open', '.c', b'int  a ;\n/* *INDENT-OFF* */\nint   b ;\n'),
    ('indent_off_line_open', '.cpp', b'int  a ;\n// *INDENT-OFF*\nint   b ;\n'),
    ('pragma_asm_open', '.c', b'int  a ;\n#pragma asm\n  mov   a, b\n'),
    ('asm_open', '.c', b'int  a ;\n#asm\n  mov   a, b\n'),
    ('crlf', '.c', b'int  a ;\r\nint   b ;\r\nvoid f(void){ a=1 ; }\r\n'),
    ('cr_only', '.c', b'int  a ;\rint   b ;\rvoid f(void){ a=1 ; }\r'),
    ('eol_tie', '.c', b'int  a ;\r\nint   b ;\nint c;'),
    ('lf_one_line', '.c', b'int  a ;'),
    ('define_cont_eof', '.c', b'int a;\n#define X(a)  a+ \\'),
    ('define_cont_eof_nl', '.c', b'int a;\n#define X(a)  a+ \\\n'),
    ('if_unbalanced', '.c', b'#if FOO\nint   a ;\n#else\nint  b ;\n'),
    ('endif_extra', '.c', b'int  a ;\n#endif\n#endif\n'),
    ('ifdef_whole_file', '.h', b'#ifndef  X_H\n#define   X_H\nint   a ;\n#endif\n'),
    ('if_nested_open', '.cpp', b'#if A\n#if B\n#ifdef C\nvoid  f( ) ;\n'),
    ('bom_utf8', '.c', b'\xef\xbb\xbfint  a ;\nint   b ;\n'),
    ('utf16le', '.c', U16),
    ('latin1', '.c', b'int  a ; /* \xe9\xe8 */\nint   b ;\n'),
    ('oc_literal', '.m', b'id  a = @[ x,y ] ;\n@interface Foo : Bar\n-(void) f : (int) x ;\n@end\n'),
    ('oc_literal_in_c', '.c', b'id  a = @[ x,y ] ;\nint   b ;\n'),
    ('oc_interface_open', '.m', b'@interface Foo : NSObject {\n  int a;\n'),
    ('oc_block', '.m', b'void (^blk)(int) = ^(int x){ return ; } ;\n[obj  msg : 1 with : 2 ] ;\n'),
    ('qt_signal_open', '.cpp', b'void f(){ connect( a, SIGNAL( x(int) ), b, SLOT( y('),
    ('qt_signal', '.cpp', b'void f(){ connect( a, SIGNAL( x(int) ), b, SLOT( y(int) ) ) ; }\n'),
    ('qt_words_dangling', '.h', b'#define A( n )  SIGNAL( n )\n#define B( n )  SLOT( n )\n'),
    ('qt_words_as_names', '.cpp', b'enum  K { SIGNAL , SLOT } ;\nint  a ;\n'),
    ('qt_word_single', '.h', b'#define GLUE_SLOT( name )  SLOT( name )\n'),
    ('cpp_in_header', '.h', b'namespace  n { class  A : public B { public : template< class T >  T  f( ) ; } ; }\n'),
    ('oc_in_mm', '.mm', b'@interface  Foo : Bar\n@property ( nonatomic ) int  x ;\n-(void) f : (int) x ;\n@end\nvoid g(){ @try { f( ) ; } @catch ( id e ) { } }\n'),
    ('includes_unsorted', '.cpp', b'#include "zeta.h"\n#include <vector>\n#include "includes_unsorted.h"\n#include "alpha.h"\nint  a ;\n'),
    ('includes_shared', '.cpp', b'#include "alpha.h"\n#include "includes_unsorted.h"\n#include "zeta.h"\n#include "includes_shared.h"\nint  b ;\n'),
    ('imports_java', '.java', b'import z.Y;\nimport a.B;\nclass  A { int  f( ){ return 1 ; } }\n'),
    ('using_cs', '.cs', b'using Z;\nusing A;\nclass  A { int  f( ){ return 1 ; } }\n'),
    ('empty', '.c', b''),
    ('blank_only', '.c', b'\n\n   \n'),
    ('already_formatted', '.c', b'int a;\nint b;\n'),
    ('comment_open', '.c', b'int  a ;\n/* never closed\nint b;\n'),
    ('string_open', '.c', b'int  a ;\nchar *s = "abc ;\n'),
    ('brace_open', '.c', b'void  f( void ){\n  if( a ){\n    b=1 ;\n'),
    ('paren_open', '.c', b'void  g( void ){ f( a,b , ( c\n'),
    ('brace_close_extra', '.c', b'int  a ;\n}\n}\n'),
    ('class_open', '.cpp', b'class  A : public B {\npublic :\n  int  f( ) ;\n'),
    ('template_open', '.cpp', b'template< typename T , typename U\n'),
    ('namespace_open', '.cpp', b'namespace  a { namespace b {\nint  x ;\n'),
    ('extern_c_open', '.cpp', b'extern "C" {\nint  f( void ) ;\n'),
    ('enum_open', '.c', b'enum  E { A , B ,\n'),
    ('switch_open', '.c', b'void f(int x){ switch( x ){ case 1 : x=2 ;\n'),
    ('typedef_struct_open', '.c', b'typedef  struct {\n  int  a ;\n'),
    ('macro_brace_unbalanced', '.c', b'#define BEGIN  if( x ){\nBEGIN\nint  a ;\n'),
    ('do_open', '.c', b'void f(void){ do x++ ;\n'),
    ('lambda_open', '.cpp', b'auto  f = [ & ]( int x ){ return x ;\n'),
    ('d_snippet', '.d', b'module  a ;\nint  f( int x ){ return x~1 ; }\nunittest {\n'),
    ('pawn_snippet', '.pawn', b'public  f( a , b )\n{\n  new  c = a+b\n  return c\n'),
    ('vala_snippet', '.vala', b'class  A : Object { public  int  f( ){ return 1 ; }\n'),
    ('cs_region_open', '.cs', b'#region  R\nclass  A { int  P { get ; set ; } }\n'),
    ('java_anno', '.java', b'@Override  public  void f( ){ }\n@interface X {\n'),
    ('ecma_snippet', '.es', b'function  f( a ){ return  a+1 ; }\nvar  x = {\n'),
    ('preproc_indent', '.c', b'#if A\n # define  X 1\n#  if B\nint  a ;\n'),
    ('virtual_brace_if', '.c', b'void f(void){ if( a ) if( b ) c=1 ; else\n'),
    ('unknown_ext_ino', '.ino', b'void  f( struct s *l ){ l->state=1 ; x = a<b>c ; y = p::q ; int[] z ; }\n'),
    ('unknown_ext_txt', '.txt', b'class  A{ void  g( ){ l->x=1 ; a = b?.c ; d = e~f ; } }\n'),
    ('no_ext', '', b'void  f( struct s *l ){ l->state=1 ; new  x = 1 ; }\n'),
    ('one_liner_long', '.c', b'int f(int a){ return a ? f(a-1)+f(a-2)+f(a-3)+f(a-4)+f(a-5)+f(a-6)+f(a-7)+f(a-8)+f(a-9) : 0 ; }\n'),
]

CONFIGS = [
    ('default', ''),
    ('sort_includes', 'mod_sort_include=true\nmod_sort_incl_import_prioritize_filename=true\nmod_sort_import=true\nmod_sort_using=true\n'
                      'mod_sort_incl_import_grouping_enabled=true\n'),
    ('newlines_auto_nl', 'newlines=auto\nnl_after_semicolon=true\nnl_after_brace_open=true\nnl_struct_brace=add\nnl_fdef_brace=add\nnl_if_brace=add\n'
                         'nl_max=2\nmod_full_brace_if=add\nindent_columns=3\nindent_with_tabs=0\n'),
    ('pp_and_align', 'pp_indent=add\npp_indent_count=2\npp_if_indent_code=true\nalign_var_def_span=2\nalign_assign_span=1\nalign_right_cmt_span=2\n'
                     'utf8_bom=ignore\ncode_width=60\nuse_options_overriding_for_qt_macros=true\nindent_class=true\nindent_namespace=true\n'),
]


def build_pool(rng, ncorpus):
    pool = []
    for label, ext, data in SYNTH:
        pool.append({'label': label, 'name': label + ext, 'data': data, 'lang': None})
    files = corpus.files()
    bylang = {}
    for rel, lang in files:
        if lang in EXT and os.path.getsize(os.path.join(corpus.input_root(), rel)) <= 6000:
            bylang.setdefault(lang, []).append(rel)
    per = max(1, ncorpus // len(bylang))
    k = 0
    for lang in sorted(bylang):
        for rel in rng.sample(bylang[lang], min(per, len(bylang[lang]))):
            k += 1
            pool.append({'label': 'corpus:' + lang, 'name': 'c%03d%s' % (k, EXT[lang]), 'data': corpus.read(rel), 'lang': lang, 'rel': rel})
    return pool


def single(entry, cfg, largs, d):
    """reference: separate invocation; returns (status, bytes or None)"""
    sd = os.path.join(d, 'single_' + entry['name'])
    os.makedirs(os.path.join(sd, 'in'), exist_ok=True)
    run.write(os.path.join(sd, 'in', entry['name']), entry['data'])
    r = run.run(['-c', '../../c.cfg', '-q'] + largs + ['--prefix', '../out', entry['name']], cwd=os.path.join(sd, 'in'))
    p = os.path.join(sd, 'out', entry['name'])
    return r, (run.read(p) if os.path.exists(p) else None)


def batch(seq, cfg, largs, d, via, tag):
    """seq: list of pool entries (repetitions allowed).  returns (Result, [bytes or None per position])"""
    bd = os.path.join(d, 'batch_' + tag)
    names = []
    for i, e in enumerate(seq):
        sub = os.path.join(bd, 'in', 'p%04d' % i)
        os.makedirs(sub)
        run.write(os.path.join(sub, e['name']), e['data'])
        names.append(os.path.join('p%04d' % i, e['name']))
    args = ['-c', '../../c.cfg', '-q'] + largs + ['--prefix', '../out']
    if via == 'pos':
        args += names
    elif via == 'F':
        run.write(os.path.join(bd, 'list.txt'), '\n'.join(names) + '\n')
        args += ['-F', '../list.txt']
    else:
        h = len(names) // 2
        run.write(os.path.join(bd, 'list.txt'), '\n'.join(names[h:]) + '\n')
        args += names[:h] + ['-F', '../list.txt']
    r = run.run(args, cwd=os.path.join(bd, 'in'), cpu=120)
    outs = []
    for n in names:
        p = os.path.join(bd, 'out', n)
        outs.append(run.read(p) if os.path.exists(p) else None)
    return r, outs


def do_batch(task):
    """task = (cfg index, lmode, via, seed, ncorpus, index list)   lmode: 'ext' | forced language name"""
    ci, lmode, via, pseed, ncorpus, idx, cfg_extra = task
    rng = random.Random(pseed)
    pool = build_pool(rng, ncorpus)
    cfgname, cfg = CONFIGS[ci] if ci >= 0 else ('random', cfg_extra)
    largs = [] if lmode == 'ext' else ['-l', lmode]
    part = core.Part()
    with run.TempDir() as d:
        run.write(os.path.join(d, 'c.cfg'), cfg)
        ref = {}

        def reference(e):
            if e['name'] not in ref:
                ref[e['name']] = single(e, cfg, largs, d)
            return ref[e['name']]
        seq = [pool[i] for i in idx]
        # entries whose separate run fails are not part of the domain (the batch would stop there by design)
        seq = [e for e in seq if reference(e)[0].ok and reference(e)[1] is not None]
        if lmode != 'ext':
            seq = [e for e in seq if e['name'].endswith(('.c', '.cpp', '.h', '.m', '.mm', '.ino', '.txt', 'no_ext'))]
        if len(seq) < 2:
            return part.result()
        r, outs = batch(seq, cfg, largs, d, via, 'main')
        bad = None
        if r.timeout:
            part.count('inconclusive')
            return part.result()
        for t, (e, o) in enumerate(zip(seq, outs)):
            want = reference(e)[1]
            prev = seq[t - 1] if t else None
            nontriv = want != e['data'] and prev is not None
            part.case((cfgname, lmode, prev['name'] if prev else None, e['name']), nontriv,
                      ['cfg:' + cfgname, 'lmode:' + ('ext' if lmode == 'ext' else 'forced'), 'via:' + via])
            if o != want and bad is None:
                bad = t
        if bad is None and not r.ok:
            bad = len(seq) - 1
        if bad is not None:
            # shrink: shortest suffix of predecessors that reproduces, then drop interior elements greedily
            victim = seq[bad]
            want = reference(victim)[1]
            chain = None
            for k in (1, 2, 3, 5, 8, 13, bad):
                k = min(k, bad)
                cand = seq[bad - k:bad + 1]
                rr, oo = batch(cand, cfg, largs, d, via, 's%d' % k)
                if oo[-1] != want or not rr.ok:
                    chain = cand
                    break
                if k == bad:
                    break
            if chain is None:
                chain = seq[:bad + 1]
            changed = True
            n = 0
            while changed and len(chain) > 2:
                changed = False
                for j in range(len(chain) - 1):
                    cand = chain[:j] + chain[j + 1:]
                    n += 1
                    rr, oo = batch(cand, cfg, largs, d, via, 'd%d' % n)
                    if oo[-1] != want or not rr.ok:
                        chain = cand
                        changed = True
                        break
            rr, oo = batch(chain, cfg, largs, d, via, 'final')
            if oo[-1] != want or not rr.ok:      # confirmed after shrinking
                got = oo[-1]
                sig = {'kind': 'batch', 'relation': 'batch!=single' if rr.ok else 'batch-exit-status', 'forced_l': lmode != 'ext',
                       'poisoners': [c['label'] for c in chain[:-1]], 'victim': victim['label'], 'cfg': cfgname}
                rep = {'cfg_text': cfg, 'largs': largs, 'via': via, 'res': rr.brief(),
                       'files': [{'name': c['name'], 'label': c['label'], 'rel': c.get('rel'), 'data_b64': core.b64(c['data'])} for c in chain],
                       'single': core.preview(want or b'<none>', 500), 'in_batch': core.preview(got or b'<none>', 500)}
                part.fail(sig, rep)
            else:
                part.count('not-reproduced-after-shrink')
        if True:
            part.sample({'config': cfgname, 'language_mode': lmode, 'via': via, 'files_in_one_invocation': len(seq),
                         'first': [e['name'] for e in seq[:6]]}, cap=1)
    return part.result()


def replay(rep):
    files = [{'name': f['name'], 'label': f['label'], 'data': core.unb64(f['data_b64'])} for f in rep['files']]
    with run.TempDir() as d:
        run.write(os.path.join(d, 'c.cfg'), rep['cfg_text'])
        r0, want = single(files[-1], rep['cfg_text'], rep['largs'], d)
        rr, oo = batch(files, rep['cfg_text'], rep['largs'], d, rep['via'], 'replay')
        if not r0.ok:
            return []
        if oo[-1] != want or not rr.ok:
            return [({'kind': 'batch', 'relation': 'batch!=single' if rr.ok else 'batch-exit-status', 'forced_l': bool(rep['largs']),
                      'poisoners': [c['label'] for c in files[:-1]], 'victim': files[-1]['label'], 'cfg': rep.get('cfg_name', 'replay')},
                     dict(rep, in_batch=core.preview(oo[-1] or b'<none>', 500)))]
    return []


def main(ctx):
    core.replay_regress(ctx, replay)
    rng = random.Random(core.subseed(ctx.seed, 'c11'))
    thorough = ctx.tier == 'thorough'
    ncorpus = 90 if thorough else 50
    pseed = rng.randrange(1 << 30)
    npool = len(build_pool(random.Random(pseed), ncorpus))
    tasks = []
    cfgs = list(range(len(CONFIGS)))
    # all ordered pairs: for every i the sequence i, j0, i, j1, ...  (adjacent pairs (i,j) and (j,i)); split into row blocks
    rows = list(range(npool))
    for ci in cfgs:
        for lmode in ('ext', 'C', 'CPP'):
            if lmode != 'ext' and not thorough and ci in (3,):
                continue
            for blk in core.chunks(rows, 16):
                seq = []
                for i in blk:
                    for j in range(npool):
                        if i != j:
                            seq += [i, j]
                tasks.append((ci, lmode, rng.choice(['pos', 'F', 'mixed']), pseed, ncorpus, seq, None))
    # random configurations and random longer sequences
    for k in range(600 if thorough else 100):
        cfg = registry.cfg_text(registry.random_cfg(rng, ('WS', 'MOD'), 0.04))
        seq = [rng.randrange(npool) for _ in range(rng.randint(20, 120))]
        tasks.append((-1, rng.choice(['ext', 'ext', 'C', 'CPP', 'OC']), rng.choice(['pos', 'F', 'mixed']), pseed, ncorpus, seq, cfg))
    for part in core.pmap(do_batch, tasks):
        ctx.merge(part)
    ctx.exhaustive = False
    ctx.extra['all_ordered_pairs_of_pool'] = True
    ctx.extra['pool_size'] = npool
    ctx.rule = ('pool of %d files (%d synthetic poisoners + seeded corpus files of every language); for each of %d configurations and '
                'language modes (by extension, forced -l C, forced -l CPP) every ordered pair of pool members is made adjacent in a '
                'batch invocation (positional / -F / both), plus seeded random configurations with random sequences of 20..120 '
                'files; each file\'s batch output is compared with a separate invocation. evaluations = (predecessor, file) '
                'adjacencies judged; non-trivial = the file is changed by formatting and has a predecessor; distinct by '
                '(config, language mode, predecessor, file).' % (npool, len(SYNTH), len(CONFIGS)))
    ctx.assumptions = ['pool members whose separate run exits non-zero are left out of the batch (a batch stops at such a file by design)',
                       'the directory part of the path (pNNNN/) is assumed not to influence formatting; the base name is kept constant']
