"""C06  Any input terminates cleanly: formatted, or refused with a diagnostic.

Domain   (a) line-boundary truncations of corpus files (quick: seeded sample; thorough: every boundary of every file) and each file
             without its final newline; (b) seeded mutations of corpus files: delete / duplicate / swap lines and tokens, insert /
             delete brackets, byte flips, insertion of lexically loaded fragments, tails that end the file inside a comment, string,
             raw string, directive, template, ObjC / C# construct; (c) random byte strings with and without NUL / invalid UTF-8;
             (d) Hypothesis-generated C / C++ programs cut at a random byte;  x  all nine languages (each input also under a
             language other than its own); thorough: (e) crash / timeout artifacts and new-coverage corpus entries of an in-process libFuzzer
             target (fuzz/harness.cpp), every one re-run out of process  x  {default, curated profiles, random in-range whitespace / mod_ / cmt_ configs; debug_* and
             file-inserting options excluded; code_width in its realistic window}  x  with and without -q.
Oracle   validity predicate on the ASan+UBSan binary: exit status in {0, 1} or 64..78 (the documented EX_* set); no signal; no
         sanitizer report; no uncaught exception; CPU time below the limit (8 s in the search, a hit is confirmed with 20 s twice);
         status != 0 => nothing on stdout and, unless -q, a diagnostic on stderr.
"""
import os
import random
import re

from vf import core, corpus, family, gen_c, gen_cpp, layout, mutate, registry, run

BUILDS = ('fast', 'san')
LEVEL = 'exploration'
LANGS = ['C', 'CPP', 'D', 'CS', 'JAVA', 'OC', 'VALA', 'PAWN', 'ECMA']
OK_STATUS = set([0, 1]) | set(range(64, 79))
SEARCH_CPU = 8
CONFIRM_CPU = 20
PROFILE_DIR = os.path.join(core.ROOT, 'profiles')
# corpus files whose truncations / mutants hang (known findings C06-K2...): kept as regress replays, left out of the random pools so that
# the search is not spent on 20-second runs of known hangs
HANG_FILES = set()


def frame(err):
    """first in-tree frame of a sanitizer report / summary line"""
    m = re.search(rb'SUMMARY: \w+Sanitizer: ([\w-]+) [^\n]*?/src/([\w/.]+):(\d+)(?::\d+)? in ([^\n]+)', err)
    if m:
        return '%s %s %s' % (m.group(1).decode(), m.group(2).decode(), m.group(4).decode()[:60])
    m = re.search(rb'([\w/.]+\.(?:cpp|h)):(\d+):\d+: runtime error: ([^\n]{0,80})', err)
    if m:
        return 'ubsan %s %s' % (os.path.basename(m.group(1).decode()), re.sub(r'0x[0-9a-f]+|\d+', 'N', m.group(3).decode()))
    m = re.search(rb'#\d+ 0x[0-9a-f]+ in (\S+) /[^\n]*?/src/([\w/.]+):\d+', err)
    if m:
        return '%s %s' % (m.group(2).decode(), m.group(1).decode()[:60])
    return ''


def judge(case):
    ex = case.extra or {}
    quiet = ex.get('quiet', True)
    cpu = ex.get('cpu', SEARCH_CPU)
    cfg = case.cfg
    if ex.get('profile'):
        cfg = open(os.path.join(PROFILE_DIR, ex['profile'] + '.cfg'), errors='replace').read()
    r, _ = run.fmt(case.src, case.lang, cfg, kind='san', cpu=cpu, quiet=quiet)
    if r.timeout and r.cpu < cpu * 0.8:
        return {'inconclusive': True}, []          # wall timeout without CPU exhaustion: machine load
    fails = []
    err = r.err

    def fail(cls, where, detail, nomin=False):
        d = {'class': cls, 'at': [where], 'got': [case.lang], 'index': 0, 'in': [core.preview(case.src, 200)],
             'out': [detail, err[-500:].decode('utf-8', 'replace')], 'first_in': where, 'first_out': detail[:100]}
        if nomin:
            d['no_minimise'] = True
        fails.append(('clean-termination', d))
    cpu_hit = (r.signal in (24, 9) and r.cpu >= cpu * 0.8) or (r.timeout and r.cpu >= cpu * 0.8)
    if cpu_hit:
        if cpu < CONFIRM_CPU and ex.get('escalate', True):
            c2 = case.with_()
            c2.extra = dict(ex, cpu=CONFIRM_CPU)
            return judge(c2)
        fail('cpu-limit', 'hang', 'no result after %d s of CPU' % cpu)
        rel, d = fails[-1]
        if _LEDGER and _LEDGER[0].match(family.make_sig(case, rel, d)) is not None:
            d['no_minimise'] = True                                  # a known hang: no need to spend minutes on shrinking it
        else:
            d['min_case_extra'] = {'cpu': 3, 'escalate': False}      # unknown: minimise config and source under a 3 s limit
    elif b'Sanitizer' in err or b'runtime error:' in err or r.status in (98, 99):
        fail('sanitizer-report', frame(err) or 'unknown-frame', 'exit %s signal %s' % (r.status, r.signal))
    elif b'terminate called' in err or b'what():' in err:
        m = re.search(rb"instance of '([^']+)'", err)
        w = re.search(rb'what\(\):\s*([^\n]{0,60})', err)
        fail('uncaught-exception', (m.group(1).decode() if m else '?') + ' ' + re.sub(r'\d+', 'N', w.group(1).decode('utf-8', 'replace') if w else ''), 'signal %s' % r.signal)
    elif r.signal is not None:
        fail('signal', 'signal %d' % r.signal, 'signal %d' % r.signal)
    elif r.status not in OK_STATUS:
        fail('undocumented-status', 'exit %s' % r.status, 'exit %s' % r.status)
    elif r.status != 0:
        if r.out.strip():
            fail('output-with-failure-status', 'exit %s' % r.status, '%d bytes on stdout' % len(r.out))
        elif not quiet and not [ln for ln in err.split(b'\n') if ln.strip() and not re.match(rb'^\w+(\(\d+\))?: Parsing: ', ln)]:
            # the "Parsing: FILE as language L" banner is printed for every file; it does not name a problem
            fail('no-diagnostic', 'exit %s' % r.status, 'nothing but the Parsing banner on stderr without -q')
    ntok = len(re.findall(rb'\w+|[^\s\w]', case.src[:4000]))
    info = {'nontrivial': (r.status not in (0, None)) or ntok >= 10,
            'classes': ['lang:' + case.lang, 'origin:' + (case.origin or {}).get('kind', '?'), 'status:%s' % (r.status if r.signal is None else 'sig%d' % r.signal),
                        'quiet' if quiet else 'verbose', 'cfg:' + ((case.origin or {}).get('cfgkind') or '?')],
            'sample': {'origin': case.origin, 'lang': case.lang, 'status': r.status, 'cfg': dict(list(case.cfgd.items())[:8]), 'bytes': len(case.src),
                       'input_tail': core.preview(case.src[-120:], 120)}}
    return info, fails


replay = family.replay_case(judge)
_EX = {}
_LEDGER = [core.Ledger('C06')]


_PROF = {}


def profile_options(name):
    """a curated profile as an option dict (so that ddmin can reduce it to the options that matter)"""
    if name not in _PROF:
        reg = registry.by_name()
        d = {}
        for ln in open(os.path.join(PROFILE_DIR, name + '.cfg'), errors='replace'):
            ln = ln.split('#', 1)[0].strip()
            m = re.match(r'^([A-Za-z_0-9]+)\s*=?\s*(\S+)$', ln)
            if m and m.group(1) in reg and reg[m.group(1)]['type'] != 'str':
                d[m.group(1)] = m.group(2).strip('"').lower() if reg[m.group(1)]['type'] != 'num' else m.group(2)
        _PROF[name] = d
    return dict(_PROF[name])


def draw_cfg(rng):
    k = rng.randrange(10)
    if k <= 2:
        return {}, None, 'default'
    if k == 3:
        p = rng.choice(sorted(n[:-4] for n in os.listdir(PROFILE_DIR) if n.endswith('.cfg')))
        return profile_options(p), None, 'profile:' + p
    d = registry.random_cfg(rng, ('WS', 'MOD', 'CMT'), rng.choice([0.01, 0.03, 0.08, 0.2]))
    family.apply_exclusions(d, _EX)
    registry.fix_nl_max(d)
    return d, None, 'random'


def mk(src, lang, rng, origin, cfg_rng=None):
    cfgd, prof, kind = draw_cfg(cfg_rng or rng)
    origin = dict(origin, cfgkind=kind)
    return family.Case(src[:65536], lang, cfgd, origin, {'quiet': rng.random() < 0.6, 'profile': prof})


def make_strategy():
    from hypothesis import strategies as st
    return st.tuples(st.one_of(gen_c.c_program(max_depth=3, max_funcs=2, pp_split=True).map(lambda t: ('C', t)), gen_cpp.cpp_program(max_snippets=3).map(lambda t: ('CPP', t))),
                     st.integers(0, 2 ** 32 - 1), st.floats(0, 1, allow_nan=False))


def to_case(v):
    (lang, toks), seed, cut = v
    rng = random.Random(seed)
    src, r = layout.render(toks, rng, lang, dict(p_cmt=0.2, bs_cmt=0.1))
    b = src.encode('utf-8')
    b = b[:max(1, int(len(b) * cut))]
    if rng.random() < 0.3:
        lang = rng.choice(LANGS)
    return mk(b, lang, rng, {'kind': 'generated-cut', 'seed': seed}, random.Random(family.cfg_seed(seed)))


FUZZ_LANGS = ['C', 'CPP', 'D', 'CS', 'JAVA', 'OC', 'VALA', 'PAWN', 'ECMA']        # same order as fuzz/harness.cpp
FUZZ_CFGS = [{}, {'indent_columns': '3', 'indent_with_tabs': '0', 'nl_max': '2'},
             {'mod_full_brace_if': 'remove', 'mod_full_brace_for': 'add', 'mod_paren_on_return': 'add'},
             {'code_width': '60', 'sp_arith': 'force', 'align_assign_span': '1'},
             {'nl_if_brace': 'add', 'nl_brace_else': 'add', 'nl_fdef_brace': 'add', 'cmt_cpp_to_c': 'true'}]


def libfuzzer_candidates(ctx, seconds):
    """run the in-process libFuzzer target (coverage-guided) and return its artifacts and new corpus entries as cases for the
    out-of-process oracle.  Nothing the fuzzer reports is believed before it reproduces through the CLI binary."""
    import glob
    import shutil
    import subprocess
    import tempfile
    from vf import build
    fz = build.ensure_fuzzer()
    work = tempfile.mkdtemp(prefix='fuzz-', dir=run.scratch_root())
    corp, art = os.path.join(work, 'corpus'), os.path.join(work, 'art')
    os.makedirs(corp)
    os.makedirs(art)
    n = 0
    for rel, lang in corpus.files():
        p = os.path.join(corpus.input_root(), rel)
        if os.path.getsize(p) < 4000 and lang in FUZZ_LANGS and n < 600:
            run.write(os.path.join(corp, 'seed%04d' % n), bytes([FUZZ_LANGS.index(lang), n % len(FUZZ_CFGS)]) + corpus.read(rel))
            n += 1
    before = set(os.listdir(corp))
    env = dict(os.environ, ASAN_OPTIONS='detect_leaks=0:allocator_may_return_null=1', UBSAN_OPTIONS='halt_on_error=1')
    cmd = [fz, '-fork=%d' % core.NPROC, '-detect_leaks=0', '-ignore_crashes=1', '-ignore_timeouts=1', '-ignore_ooms=1', '-timeout=20', '-rss_limit_mb=3000',
           '-max_len=6000', '-seed=%d' % (ctx.seed % (2 ** 31)), '-max_total_time=%d' % seconds, '-artifact_prefix=' + art + '/', corp]
    r = subprocess.run(cmd, capture_output=True, env=env, timeout=seconds + 600)
    tail = r.stderr.decode('utf-8', 'replace').strip().splitlines()[-3:]
    ctx.extra['libfuzzer'] = {'seconds': seconds, 'seed_inputs': n, 'final_lines': tail}
    cases = []

    def decode(path, kind):
        b = run.read(path)
        if len(b) < 3:
            return
        cases.append(family.Case(b[2:], FUZZ_LANGS[b[0] % 9], FUZZ_CFGS[b[1] % 5], {'kind': kind, 'cfgkind': 'fuzz-table'}, {'quiet': False, 'profile': None}))
    arts = sorted(glob.glob(os.path.join(art, '*')))
    for a in arts:
        base = os.path.basename(a)
        if base.startswith(('crash-', 'timeout-', 'oom-')):
            decode(a, 'libfuzzer-' + base.split('-')[0])
    new = sorted(set(os.listdir(corp)) - before)
    ctx.extra['libfuzzer'].update({'artifacts': len(arts), 'new_corpus_entries': len(new)})
    rng = random.Random(ctx.seed)
    for f in (new if len(new) <= 6000 else rng.sample(new, 6000)):
        decode(os.path.join(corp, f), 'libfuzzer-corpus')
    shutil.rmtree(work, ignore_errors=True)
    return cases


LOCAL_MACRO_PROGRAMS = [
    ('C', 'void f(int a)\n{\n   switch (a)\n   {\n   case 1:\n   {\n#define CHECK(x) do { if (!(x)) { report(a); } break; } while (0)\n      CHECK(a);\n'
          '#undef CHECK\n   }\n   break;\n   case 2:\n   {\n#define R2(x) { if (x) return; }\n      R2(a)\n   }\n   return;\n   default:\n      break;\n   }\n}\n'),
    ('C', 'void g(int a)\n{\n   if (a)\n   {\n#define E(x) if (x) { a++; } else { a--; }\n      E(a);\n   }\n   else\n      a = 0;\n'
          '   while (a)\n   {\n#define R(x) { if (x) return; }\n      R(a)\n      a--;\n   }\n   do\n   {\n#define W(x) while (x) { a--; }\n      W(a)\n   } while (a);\n}\n'),
    ('CPP', 'struct S\n{\n   int a;\n#define F(n) struct { int n; } n ## _s\n   F(b);\n   void m()\n   {\n      for (;;)\n      {\n'
            '#define B(x) if (x) { break; }\n         B(a)\n      }\n   }\n};\nnamespace N\n{\n#define NS(x) namespace x { }\nNS(q)\n}\n'),
]


def main(ctx):
    quick = ctx.tier == 'quick'
    _EX.update(family.exclusions(ctx))
    family.set_tier(ctx)
    ctx.rule = ('case = (input bytes, language, config, -q or not) run on the ASan+UBSan binary; non-trivial = the input is refused, or accepted '
                'with >= 10 tokens; distinct by sha256(input, language, config)')
    ctx.assumptions = ['documented exit statuses = 0, 1 and the EX_* range 64..78 of base_types.h', 'a run is a hang when it uses %d s of CPU (typical runs '
                       'need < 0.3 s); inputs are capped at 64 KiB' % CONFIRM_CPU, '-DNDEBUG is kept: the property is about the binary users run']
    core.replay_regress(ctx, replay)
    files = corpus.files()
    sizes = {rel: os.path.getsize(os.path.join(corpus.input_root(), rel)) for rel, _l in files}
    cases = []
    # (a) truncations
    ntr = 3000 if quick else None
    trunc = []
    for rel, lang in files:
        if sizes[rel] > 40000 or rel in HANG_FILES:
            ctx.counts['excluded_by_finding'] += 1
            continue
        src = corpus.read(rel)
        idx = [m.end() for m in re.finditer(rb'\n', src)]
        for i in idx:
            trunc.append((rel, lang, i))
        trunc.append((rel, lang, -1))
    ctx.extra['truncation_universe'] = len(trunc)
    rng = random.Random(core.subseed(ctx.useed, 'trunc'))
    if ntr is not None:
        trunc = rng.sample(trunc, ntr)
    else:
        ctx.extra['truncations_exhaustive'] = True
    for j, (rel, lang, i) in enumerate(trunc):
        src = corpus.read(rel)
        cut = src.rstrip(b'\r\n') if i == -1 else src[:i]
        r = random.Random(core.subseed(ctx.useed, 't', rel, i))
        if r.random() < 0.5:
            cut = cut.rstrip(b'\r\n')
        cases.append(mk(cut, lang, r, {'kind': 'truncation', 'file': rel, 'at': i}))
    # (b) mutations
    small = [f for f in files if sizes[f[0]] < 12000 and f[0] not in HANG_FILES]
    for i in range(5000 if quick else 120000):
        r = random.Random(core.subseed(ctx.useed, 'mut', i))
        rel, lang = r.choice(small)
        src, names = mutate.mutate(corpus.read(rel), r, r.randint(1, 3))
        if r.random() < 0.15:
            lang = r.choice(LANGS)
        cases.append(mk(src, lang, r, {'kind': 'mutant', 'file': rel, 'mut': names, 'i': i}))
    # (b2) end of file inside every kind of construct: every tail x every language, appended to a small valid prefix, without -q
    prefix = {'C': b'int g(int);\n', 'CPP': b'int g(int);\n', 'D': b'int g(int);\n', 'CS': b'class A { }\n', 'JAVA': b'class A { }\n', 'OC': b'int g(int);\n',
              'VALA': b'class A { }\n', 'PAWN': b'new x = 1;\n', 'ECMA': b'var x = 1;\n'}
    for lang in LANGS:
        for ti, tail in enumerate(mutate.TAILS):
            for pre in (b'', prefix[lang]):
                cases.append(family.Case(pre + tail, lang, {}, {'kind': 'eof-in-construct', 'tail': ti, 'cfgkind': 'default'}, {'quiet': False, 'profile': None}))
    # (b3) deep nesting (beyond the fixed-size per-level tables of some passes) under the alignment options
    reg_ = registry.load()
    align_all = {}
    for o in reg_:
        if o['name'].startswith('align_') and registry.klass(o['name']) == 'WS':
            if o['type'] == 'bool':
                align_all[o['name']] = 'true'
            elif o['type'] == 'num' and o['name'].endswith('_span'):
                align_all[o['name']] = '2'
    for depth in (17, 33, 70):
        shapes = {
            'CPP': [''.join('namespace n%d {\n' % i for i in range(depth)) + 'void f(\n   int a,\n   char  b);\nint x = 1;\n' + '}\n' * depth,
                    ''.join('struct s%d {\n' % i for i in range(depth)) + 'int a;\nchar bb; // c\n' + '};\n' * depth],
            'C': ['void f(void)\n{\n' + '{\n' * depth + 'int a = 1;\nchar bb = 2; /* c */\ng(a,\n  bb);\n' + '}\n' * depth + '}\n',
                  'int x = ' + '(' * depth + '1 +\n 2' + ')' * depth + ';\n',
                  'int a[] = ' + '{' * depth + ' 1,\n 22 ' + '}' * depth + ';\n'],
        }
        for lang, srcs in shapes.items():
            for si, src in enumerate(srcs):
                for ci, cd in enumerate(({}, align_all)):
                    cases.append(family.Case(src.encode(), lang, dict(cd), {'kind': 'deep-nesting', 'depth': depth, 'shape': si, 'cfgkind': 'align-all' if ci else 'default'},
                                             {'quiet': False, 'profile': None}))
    # (b5) block-local macros (a '#define' inside a case block / an if body / a loop body / a struct, whose body holds braces, 'break',
    #      'else', 'return'): the passes that walk "to the matching brace" or "to the end of the statement" meet chunks of another
    #      preprocessor scope there.  Every setting of every code-modifying and newline option, each alone.
    nlm = 0
    for o in reg_:
        if not (o['name'].startswith('mod_') or o['name'].startswith('nl_')):
            continue
        vals = [v for v in (registry.values(o) if o['type'] != 'num' else ['1', '2']) if v != o['default']]
        for v in vals:
            for pi, (lang, src) in enumerate(LOCAL_MACRO_PROGRAMS):
                cases.append(family.Case(src.encode(), lang, {o['name']: v}, {'kind': 'local-macro', 'shape': pi, 'cfgkind': 'single-option'},
                                         {'quiet': False, 'profile': None}))
                nlm += 1
    ctx.extra['local_macro_cases'] = nlm
    # (b4) marker options given as regular expressions that the library refuses: a configuration error, never an abort
    for bad in ('(', '[a', '*x', 'a{2', '\\'):
        for optn in ('disable_processing_cmt', 'enable_processing_cmt'):
            cd = {'processing_cmt_as_regex': 'true', optn: '"%s"' % bad.replace('\\', '\\\\')}
            cases.append(family.Case(b'int a; /* c */\n// *INDENT-OFF*\nint  b ;\n// *INDENT-ON*\n', 'C', cd, {'kind': 'bad-marker-regex', 'cfgkind': optn},
                                     {'quiet': False, 'profile': None}))
    # (c) random bytes
    for i in range(600 if quick else 8000):
        r = random.Random(core.subseed(ctx.useed, 'rnd', i))
        n = r.choice([1, 2, 5, 20, 100, 600])
        alpha = r.choice([bytes(range(32, 127)) + b'\n\t', bytes(range(256)), b'{}()[]<>;,:\'"\\/#*@$ \n\tabc01', b'\x00\xff\xfe\xef\xbb\xbf\xc0\x80ab \n'])
        src = bytes(r.choice(alpha) for _ in range(n))
        cases.append(mk(src, r.choice(LANGS), r, {'kind': 'random-bytes', 'i': i}))
    if not quick:
        # (e) coverage-guided candidates from the in-process libFuzzer target, judged out of process
        try:
            cases += libfuzzer_candidates(ctx, int(os.environ.get('VERIF_FUZZ_SECONDS', '600')))
        except Exception as ex:      # the fuzzer is a candidate generator only: its failure is recorded, never a verdict
            ctx.extra['libfuzzer'] = {'error': repr(ex)[:400]}
    raw = family.explore(ctx, judge, cases, batch=8)
    raw += family.hyp_explore(ctx, judge, make_strategy, to_case, shards=16, examples=(120 if quick else 3000))
    family.triage(ctx, judge, raw, minimise_src=20000, per_cluster=1, max_clusters=80)
