"""C07  Disabled regions are copied through untouched.

Domain   Hypothesis-generated C programs and corpus files (C, C++, Java, C#, D, Pawn) with 1..3 disabled regions inserted before
         statement-start lines, at file start, unterminated at EOF, and corpus files wrapped whole; marker kinds: default block and
         line comments, configured disable/enable_processing_cmt strings, regex markers (processing_cmt_as_regex), #pragma asm /
         #pragma endasm, #asm / #endasm.  Region content: generated lines over printable ASCII, tabs, trailing blanks, non-ASCII,
         unbalanced brackets and quotes, comment openers, directives, 0..4 consecutive whitespace-only / empty lines; it never
         contains the enable marker.  Configs: whitespace + mod_ options, blank-line options and nl_max drawn at weight.
Oracle   (a) the output lines strictly between the two marker lines equal the input's (same number, order, bytes), with
             whitespace-only lines mapped to empty and the terminator normalised;
         (b) opacity: formatting prefix + R + suffix and prefix + R' + suffix (R' another non-empty content) yields identical bytes
             before the first and after the last region line.
"""
import os
import random
import re

from vf import core, corpus, family, gen_c, layout, outlines, registry, run

BUILDS = ('fast',)
LEVEL = 'exploration'
BRK = re.compile(rb'\r\n|\r|\n')

# '$' and '#' are left out of the random alphabet: they are the subject of the known findings C07-K4/K5/K6 (kept as regress replays),
# and with them in the alphabet nearly every case would end in one of those instead of exploring further
ALPH = ['a', 'b', 'x1', ' ', '  ', '\t', '{', '}', '(', ')', '[', ']', ';', ',', '"', "'", '/*', '*/', '//', '\\', '=', '+', '<', '>', 'é', '中',
        'if', 'else', 'int', 'return', 'define', 'case', ':', '->', '@', '%', '   ', '\t\t', '0x1F', '...', '::']


def gen_content(rng, tag, min_lines=1):
    """list of byte lines (no terminator).  Non-blank lines carry a unique sentinel."""
    lines = []
    n = rng.randint(min_lines, 7)
    k = 0
    while len(lines) < n:
        r = rng.random()
        if r < 0.2:
            for _ in range(rng.randint(1, 4)):
                lines.append(rng.choice(['', '', ' ', '\t', '   ', ' \t ']).encode())
            continue
        k += 1
        body = ''.join(rng.choice(ALPH) for _ in range(rng.randint(1, 9)))
        lead = rng.choice(['', '', ' ', '\t', '      ', ' \t', '\t '])
        trail = rng.choice(['', '', '', ' ', '\t', '  ', '', '', '', ' ', '\t', '  ', '\\', ' \\', '\t\\'])      # (a line-final backslash in 1 of 5 lines)
        lines.append(('%s%s_%s%d_%s' % (lead, body, tag, k, trail)).encode('utf-8'))
    if all(not x.strip() for x in lines):
        lines.append(('keep_%s0_' % tag).encode())
    return lines


MARKERS = ['block', 'line', 'custom', 'regex', 'pragma_asm', 'hash_asm']


def marker_lines(kind, tag, lang):
    """(off line, on line, extra config dict)"""
    if kind == 'block':
        return '/* *INDENT-OFF* %s */' % tag, '/* *INDENT-ON* %s */' % tag, {}
    if kind == 'line':
        return '// *INDENT-OFF* %s' % tag, '// *INDENT-ON* %s' % tag, {}
    if kind == 'custom':
        return '// fmt:off %s' % tag, '/* fmt:on %s */' % tag, {'disable_processing_cmt': '" fmt:off"', 'enable_processing_cmt': '" fmt:on"'}
    if kind == 'regex':
        return '// NOFMT-BEGIN-7 %s' % tag, '// NOFMT-END-7 %s' % tag, {'processing_cmt_as_regex': 'true', 'disable_processing_cmt': '" NOFMT-BEGIN-[0-9]"',
                                                                    'enable_processing_cmt': '" NOFMT-END-[0-9]"'}
    if kind == 'regex_default':        # regex mode, built-in marker texts (they must keep working as plain text)
        return '/* *INDENT-OFF* %s */' % tag, '// *INDENT-ON* %s' % tag, {'processing_cmt_as_regex': 'true'}
    if kind == 'regex_custom_off':     # regex mode, custom disable pattern that also accepts the classic text, default enable marker
        return '// *INDENT-OFF* %s' % tag, '/* *INDENT-ON* %s */' % tag, {'processing_cmt_as_regex': 'true',
                                                                         'disable_processing_cmt': '" (NOFMT-BEGIN|\\*INDENT-OFF\\*)"'}
    if kind == 'pragma_asm':
        return '#pragma asm', '#pragma endasm', {}
    return '#asm', '#endasm', {}


def forbid(content, kind):
    bad = {'block': [b'INDENT-ON'], 'line': [b'INDENT-ON'], 'custom': [b'fmt:on'], 'regex': [b'NOFMT-END'], 'pragma_asm': [b'endasm'],
           'hash_asm': [b'endasm'], 'regex_default': [b'INDENT-O'], 'regex_custom_off': [b'INDENT-O', b'NOFMT']}[kind]
    return [ln for ln in content if not any(b in ln for b in bad)]


def build(base_lines, regions, final_nl=True):
    """base_lines: list of byte lines; regions: list of (position, off, content lines, on or None).  returns bytes"""
    out = []
    by_pos = {}
    for r in regions:
        by_pos.setdefault(r[0], []).append(r)
    for i in range(len(base_lines) + 1):
        for (_p, off, content, on) in by_pos.get(i, []):
            out.append(off.encode())
            out.extend(content)
            if on is not None:
                out.append(on.encode())
        if i < len(base_lines):
            out.append(base_lines[i])
    return b'\n'.join(out) + (b'\n' if final_nl else b'')


def norm_region(lines):
    return [b'' if not x.strip(b' \t\x0c') else x for x in lines]


def extract(data, off, on):
    """lines strictly between the line holding `off` and the line holding `on` (or EOF); also (prefix bytes, suffix bytes)"""
    lines = BRK.split(data)
    if lines and lines[-1] == b'':
        lines.pop()
    offb = off.encode()
    io = next((i for i, ln in enumerate(lines) if offb in ln), None)
    if io is None:
        return None
    if on is None:
        return lines[io + 1:], lines[:io + 1], []
    onb = on.encode()
    ie = next((i for i in range(io + 1, len(lines)) if onb in lines[i]), None)
    if ie is None:
        return None
    return lines[io + 1:ie], lines[:io + 1], lines[ie:]


def judge(case):
    ex = case.extra
    regions = ex['regions']          # [[pos, off, [content lines as latin-1 str], on|None, kind]]
    base = [x.encode('latin-1') for x in ex['base']]
    regs = [(p, off, [c.encode('latin-1') for c in content], on) for p, off, content, on, kind in regions]
    final_nl = not ex.get('no_final_nl')
    src = build(base, regs, final_nl)
    cfg = case.cfg
    r, _ = run.fmt(src, case.lang, cfg)
    if r.timeout:
        return {'inconclusive': True}, []
    if not r.ok:
        return {'counts': ['refused'], 'classes': ['refused:' + case.lang]}, []
    fails = []
    kinds = sorted(set(k for *_x, k in regions))
    blank_in = False
    for (p, off, content, on), (_p, _o, _c, _n, kind) in zip(regs, regions):
        got = extract(r.out, off, on)
        want = norm_region(content)
        blank_in = blank_in or any(not x for x in want)
        if kind in ('pragma_asm', 'hash_asm') and len(regs) > 1:
            continue          # the asm markers carry no tag: with several regions they cannot be told apart
        if got is None:
            fails.append(('region-bytes', {'class': 'marker-lost', 'at': [kind], 'got': [], 'index': 0, 'in': [off], 'out': [core.preview(r.out, 200)],
                                           'first_in': kind, 'first_out': ''}))
            continue
        g = norm_region(got[0])
        if g != want:
            nb_w = [x for x in want if x]
            nb_g = [x for x in g if x]
            if nb_w != nb_g:
                cls = 'non-blank-line-changed'
                i = next((k for k in range(min(len(nb_w), len(nb_g))) if nb_w[k] != nb_g[k]), min(len(nb_w), len(nb_g)))
                a, b = (nb_w[i] if i < len(nb_w) else b'<none>'), (nb_g[i] if i < len(nb_g) else b'<none>')
            else:
                def strip_edges(x):
                    i, j = 0, len(x)
                    while i < j and not x[i]:
                        i += 1
                    while j > i and not x[j - 1]:
                        j -= 1
                    return x[i:j]
                where = 'at-edge' if strip_edges(g) == strip_edges(want) else 'interior'
                cls = 'blank-lines-%s-%s' % ('removed' if len(g) < len(want) else 'added', where)
                a, b = b'%d lines' % len(want), b'%d lines' % len(g)
            fails.append(('region-bytes', {'class': cls, 'at': [kind], 'got': [], 'index': 0, 'in': [repr(a)], 'out': [repr(b)], 'first_in': kind,
                                           'first_out': repr(b)[:80]}))
    # (b) opacity
    if ex.get('alt'):
        regs2 = [(p, off, [c.encode('latin-1') for c in alt], on) for (p, off, _c, on), alt in zip(regs, ex['alt'])]
        src2 = build(base, regs2, final_nl)
        r2, _ = run.fmt(src2, case.lang, cfg)
        if r2.ok and not r2.timeout:
            first, last = regs[0], regs[-1]
            if regions[0][4] not in ('pragma_asm', 'hash_asm') or len(regs) == 1:
                e1 = extract(r.out, first[1], first[3])
                e2 = extract(r2.out, first[1], first[3])
                l1 = extract(r.out, last[1], last[3])
                l2 = extract(r2.out, last[1], last[3])
                if e1 and e2 and l1 and l2:
                    if e1[1] != e2[1]:
                        i = next((k for k in range(min(len(e1[1]), len(e2[1]))) if e1[1][k] != e2[1][k]), min(len(e1[1]), len(e2[1])))
                        fails.append(('opacity', {'class': 'prefix-depends-on-region', 'at': [regions[0][4]], 'got': [], 'index': i,
                                                  'in': [repr(e1[1][i] if i < len(e1[1]) else b'')], 'out': [repr(e2[1][i] if i < len(e2[1]) else b'')],
                                                  'first_in': regions[0][4], 'first_out': ''}))
                    if l1[2] != l2[2]:
                        i = next((k for k in range(min(len(l1[2]), len(l2[2]))) if l1[2][k] != l2[2][k]), min(len(l1[2]), len(l2[2])))
                        fails.append(('opacity', {'class': 'suffix-depends-on-region', 'at': [regions[-1][4]], 'got': [], 'index': i,
                                                  'in': [repr(l1[2][i] if i < len(l1[2]) else b'')], 'out': [repr(l2[2][i] if i < len(l2[2]) else b'')],
                                                  'first_in': regions[-1][4], 'first_out': ''}))
        elif not r2.ok and not r2.timeout:
            fails.append(('opacity', {'class': 'acceptance-depends-on-region', 'at': [regions[0][4]], 'got': [str(r2.status)], 'index': 0, 'in': ['exit 0'],
                                      'out': ['exit %s' % r2.status], 'first_in': regions[0][4], 'first_out': str(r2.status)}))
    nb = sum(1 for (_p, _o, c, _n) in regs for x in c if x.strip())
    info = {'nontrivial': nb >= 2, 'classes': ['lang:' + case.lang, 'origin:' + (case.origin or {}).get('kind', '?')] + ['marker:' + k for k in kinds] +
            (['blank-lines-in-region'] if blank_in else []) + (['unterminated'] if any(r_[3] is None for r_ in regs) else []) +
            (['nl_max'] if int(case.cfgd.get('nl_max', '0')) > 0 else []),
            'sample': {'origin': case.origin, 'lang': case.lang, 'cfg': case.cfgd, 'regions': [[p, off, c[:3], on] for p, off, c, on, k in regions][:2]}}
    return info, fails


replay = family.replay_case(judge)
_EX = {}


def draw_cfg(rng, density, lang):
    d = registry.random_cfg(rng, ('WS', 'MOD'), density) if density else {}
    if rng.random() < 0.5:
        d['nl_max'] = str(rng.choice([1, 2, 3]))
    if rng.random() < 0.3:
        d['eat_blanks_after_open_brace'] = 'true'
        d['eat_blanks_before_close_brace'] = 'true'
    if rng.random() < 0.3:
        d.update({'mod_full_brace_if': rng.choice(['add', 'remove']), 'mod_full_brace_for': rng.choice(['add', 'remove']),
                  'mod_remove_extra_semicolon': 'true'})
    if lang == 'PAWN' and rng.random() < 0.5:
        d['mod_pawn_semicolon'] = 'true'
    if rng.random() < 0.15:
        d['disable_processing_nl_cont'] = 'true'      # ("whatever the configuration says": the other way of switching formatting off)
    family.apply_exclusions(d, _EX)
    registry.fix_nl_max(d)
    return d


def mk_case(base_lines, positions, lang, rng, origin, cfg_density):
    nreg = len(positions)
    # one marker family per case: configuring custom / regex markers replaces the default ones for the whole file
    fam = rng.choice(['default', 'default', 'custom', 'regex', 'asm', 'regex_default', 'regex_custom_off'])
    if fam == 'asm' and (nreg > 1 or lang not in ('C', 'CPP')):
        fam = 'default'
    kinds = [{'default': rng.choice(['block', 'line']), 'custom': 'custom', 'regex': 'regex', 'asm': rng.choice(['pragma_asm', 'hash_asm']),
              'regex_default': 'regex_default', 'regex_custom_off': 'regex_custom_off'}[fam]
             for _ in range(nreg)]
    cfgd = draw_cfg(random.Random(family.cfg_seed(rng.randrange(2 ** 32))), cfg_density, lang)
    regions, alts = [], []
    unterminated = rng.random() < 0.08
    for i, (pos, k) in enumerate(zip(sorted(positions), kinds)):
        tag = 'R%d' % i
        off, on, extra = marker_lines(k, '<%s>' % tag, lang)
        cfgd.update(extra)
        content = forbid(gen_content(rng, tag), k) or [b'keep_%s_' % tag.encode()]
        alt = forbid(gen_content(rng, 'A%d' % i), k) or [b'alt_%s_' % tag.encode()]
        last = (i == nreg - 1)
        regions.append([pos if not (last and unterminated) else len(base_lines), off, [c.decode('latin-1') for c in content],
                        None if (last and unterminated) else on, k])
        alts.append([c.decode('latin-1') for c in alt])
    extra = {'base': [b.decode('latin-1') for b in base_lines], 'regions': regions, 'alt': alts}
    if unterminated and rng.random() < 0.5:
        extra['no_final_nl'] = True          # the region's last line is the last line of the file and has no terminator
    return family.Case(b'', lang, cfgd, origin, extra)


def lines_inside_tokens(src):
    """1-based numbers of the lines that start inside a block comment or a multi-line literal (a marker put there is not a marker)"""
    out = set()
    line = 1
    i, n = 0, len(src)
    state = None
    while i < n:
        c = src[i:i + 2]
        ch = src[i:i + 1]
        if ch == b'\n':
            line += 1
            if state in ('cmt', 'raw', 'verb'):
                out.add(line)
            elif state in ('str', 'chr', 'line'):
                state = None
            i += 1
            continue
        if state is None:
            if c == b'/*':
                state = 'cmt'
                i += 2
                continue
            if c == b'//':
                state = 'line'
            elif c == b'R"':
                state = 'raw'
            elif c == b'@"':
                state = 'verb'
                i += 2
                continue
            elif ch == b'"':
                state = 'str'
            elif ch == b"'":
                state = 'chr'
        elif state == 'cmt' and c == b'*/':
            state = None
            i += 2
            continue
        elif state in ('str', 'chr') and ch == b'\\':
            i += 2
            continue
        elif state == 'str' and ch == b'"':
            state = None
        elif state == 'chr' and ch == b"'":
            state = None
        elif state == 'verb' and ch == b'"':
            state = None
        elif state == 'raw' and c == b')"':
            state = None
        i += 1
    return out


def make_strategy():
    from hypothesis import strategies as st
    return st.tuples(gen_c.c_program(max_depth=3, max_funcs=2), st.integers(0, 2 ** 32 - 1))


def to_case(v):
    toks, seed = v
    rng = random.Random(seed)
    src, r = layout.render(toks, rng, 'C', dict(p_cmt=0.05, p_join=0.0, p_brace_nl=1.0, bs_cmt=0.0))
    base = src.encode('utf-8').split(b'\n')
    if base and base[-1] == b'':
        base.pop()
    cand = sorted(set(ln - 1 for ln, depth, kind in r.stmt_lines if kind in ('stmt', 'top', 'close', 'case') and 0 < ln - 1 <= len(base)))
    cand = [p for p in cand if not base[p - 1].rstrip().endswith(b'\\')] + [0]
    pos = rng.sample(cand, min(len(cand), rng.randint(1, 3)))
    return mk_case(base, pos, 'C', rng, {'kind': 'generated', 'seed': seed}, (0, 0.02, 0.06)[seed % 3])


def main(ctx):
    quick = ctx.tier == 'quick'
    _EX.update(family.exclusions(ctx))
    family.set_tier(ctx)
    ctx.rule = ('case = (base program, 1..3 regions with generated content and an alternative content, marker kind, config); 2 executions; '
                'non-trivial = the regions hold >= 2 non-blank lines (content is random text that formatting would change); distinct by sha256')
    ctx.assumptions = ['marker lines are located in the output by the unique tag written into the marker comment',
                       'whitespace-only region lines are compared as empty lines; terminators normalised']
    core.replay_regress(ctx, replay)
    cases = []
    langs = ('C', 'CPP', 'JAVA', 'CS', 'D', 'PAWN')
    files = [f for f in corpus.files() if f[1] in langs and os.path.getsize(os.path.join(corpus.input_root(), f[0])) < 8000]
    n = 2500 if quick else 40000
    for i in range(n):
        rng = random.Random(core.subseed(ctx.useed, 'corpus', i))
        rel, lang = rng.choice(files)
        src = corpus.read(rel)
        if b'\x00' in src[:2000] or b'INDENT-O' in src or b'asm' in src or b'??' in src:      # (trigraphs: "??'" opens a literal for the tokenizer)
            continue
        base = BRK.split(src)
        if base and base[-1] == b'':
            base.pop()
        if i % 10 == 0:          # wrap the whole file
            off, on, extra = marker_lines('block', '<R0>', lang)
            cfgd = draw_cfg(rng, 0.03, lang)
            c = family.Case(b'', lang, cfgd, {'kind': 'corpus-wrapped', 'file': rel},
                            {'base': [], 'regions': [[0, off, [b.decode('latin-1') for b in base], on, 'block']], 'alt': None})
            cases.append(c)
            continue
        inside = lines_inside_tokens(src)
        cand = [k + 1 for k, ln in enumerate(base) if ln.rstrip().endswith((b';', b'}', b'{')) and not ln.lstrip().startswith((b'*', b'/', b'#'))
                and (k + 1) not in inside and (k + 2) not in inside]
        if not cand:
            continue
        pos = rng.sample(cand, min(len(cand), rng.randint(1, 3)))
        cases.append(mk_case(base, pos, lang, rng, {'kind': 'corpus-region', 'file': rel}, (0, 0.02, 0.05)[i % 3]))
    raw = family.explore(ctx, judge, cases)
    raw += family.hyp_explore(ctx, judge, make_strategy, to_case, shards=16, examples=(250 if quick else 4000))
    family.triage(ctx, judge, raw, minimise_src=False)
