"""C02  Token stream is preserved exactly under whitespace-only configurations.

Domain   (a) corpus universe (all nine languages) x {built-in default, seeded random whitespace-class configs}
         (b) seeded line-level mutations of corpus files (delete / duplicate / swap lines, insert / delete one bracket;
             judged only when uncrustify accepts them).  Token-level garbage (`c > > d`, `. . .`, `std: ::x`) is not generated:
             such adjacencies do not occur in code and every one of them is its own fusion finding
         (c) Hypothesis-generated C programs (macros, continuations, inactive #if branches holding non-C text, fusion-prone
             operator adjacencies) rendered by the layout engine with random gaps / newlines / comments
         (d) single-option sweep: every add/remove/force option of the whitespace class at each of its four values over a
             per-language corpus slice (thorough: all options; quick: a seeded subset)
         configs draw whitespace-class options only (mod_/cmt_/lexer-redefining/encoding/file/debug options stay at default).
Oracle   A (C, C++, ObjC, Java): code_stream(clex(in)) == code_stream(clex(out)) incl. directive start/end pseudo tokens
         B (all languages, hook): tok0(in) ~ tok0(re-tokenised out) with in-preprocessor flags and end-of-directive markers
         C (all languages, hook): non-blank characters of tok0(in) == those of the chunk list written (preout)
"""
import os
import random

from vf import gen_cpp, core, corpus, family, gen_c, layout, mutate, registry, tokrel

BUILDS = ('fast',)
LEVEL = 'exploration'
CLASSES = ('WS',)


def judge(case):
    e = tokrel.execute(case.src, case.lang, case.cfg)
    if e.timeout:
        return {'inconclusive': True}, []
    if not e.accepted:
        return {'counts': ['refused'], 'classes': ['refused:' + case.lang]}, []
    fails = []
    garbage = (case.origin or {}).get('kind') == 'mutant' and any(ln.count(b'"') % 2 for ln in case.src.split(b'\n') if b"'\"'" not in ln)
    d = None if garbage else tokrel.rel_tok0(e)      # a line-level mutant that breaks a quoted string is garbage to every lexer
    if d:
        fails.append(('tok0-code', d))
    d = tokrel.rel_preout(e)
    if d:
        fails.append(('preout-chars', d))
    d, lin, lout = tokrel.rel_clex_code(e)
    counts = []
    if lin is not None and (garbage or ((case.origin or {}).get('kind') == 'mutant' and any(t[0] == 'other' and t[1] in ('"', "'") for t in lin))):
        # a mutant with an unterminated quote: the two lexers may segment the garbage differently and neither is "right"
        d, lin = None, None
    if case.lang in corpus.CFAMILY:
        counts.append('clex_judged' if lin is not None else 'unlexable')
    if d:
        fails.append(('clex-code', d))
    ntok = sum(1 for c in e.tok_in if c.type not in tokrel.NL_TYPES and not tokrel.is_cmt(c.type))
    nontrivial = e.out != case.src and ntok >= 20
    info = {'nontrivial': nontrivial, 'counts': counts,
            'classes': ['lang:' + case.lang, 'origin:' + (case.origin or {}).get('kind', '?'),
                        'changed' if e.out != case.src else 'unchanged'],
            'sample': {'origin': case.origin, 'lang': case.lang, 'cfg': case.cfgd, 'tokens': ntok,
                       'input_head': core.preview(case.src, 160)}}
    return info, fails


replay = family.replay_case(judge)


# ------------------------------------------------------------------------------------------------ generated programs
def make_strategy():
    from hypothesis import strategies as st
    return st.tuples(gen_c.c_program(max_depth=3, max_funcs=2, pp_split=True), st.integers(0, 2 ** 32 - 1), st.integers(0, 2 ** 32 - 1))


_EX = {}


def to_case(v):
    toks, lseed, cseed = v
    cseed = family.cfg_seed(cseed)
    # backslash + blanks + line end is a continuation for gcc everywhere, for uncrustify in code but not at the end of a // comment: a
    # program holds either such comments or such continuations, never both (no single splice convention would describe the tool)
    src, r = layout.render(toks, random.Random(lseed), 'C', dict(bs_cmt=0.15) if lseed % 2 else dict(bs_cmt=0.0, p_bs_trail=0.2))
    rng = random.Random(cseed)
    k = cseed % 5
    if k == 0:
        cfgd = {}
    else:
        cfgd = registry.random_cfg(rng, CLASSES, (0.01, 0.03, 0.08, 0.2)[k - 1])
        family.apply_exclusions(cfgd, _EX)
    return family.Case(src.encode('utf-8'), 'C', cfgd, {'kind': 'generated', 'layout_seed': lseed, 'cfg_seed': cseed})


def extreme_cfgs(ex, counter, quick):
    """whole-family settings: every sp_ add/remove/force option at `remove` (the most fusion-prone configuration; with and without the
    boolean spacing permissions) and at `force`; thorough adds every nl_ add/remove/force option at `remove` / `add`"""
    opts = registry.ws_options()
    sp = [o for o in opts if registry.is_iarf(o) and o['name'].startswith('sp_')]
    nl = [o for o in opts if registry.is_iarf(o) and o['name'].startswith('nl_')]
    spb = [o for o in opts if o['type'] == 'bool' and o['name'].startswith('sp_')]
    out = []
    d = {o['name']: 'remove' for o in sp}
    out.append(dict(d))
    d2 = dict(d)
    d2.update({o['name']: 'true' for o in spb})
    out.append(d2)
    if not quick:
        out.append({o['name']: 'force' for o in sp})
        out.append({o['name']: 'remove' for o in nl})
        out.append({o['name']: 'add' for o in nl})
        d3 = {o['name']: 'remove' for o in sp}
        d3.update({o['name']: 'remove' for o in nl})
        out.append(d3)
    for c in out:
        family.apply_exclusions(c, ex, counter)
    return out


def make_strategy_cpp():
    from hypothesis import strategies as st
    return st.tuples(gen_cpp.cpp_program(max_snippets=4), st.integers(0, 2 ** 32 - 1), st.integers(0, 2 ** 32 - 1))


def to_case_cpp(v):
    toks, lseed, cseed = v
    cseed = family.cfg_seed(cseed)
    rng = random.Random(lseed)
    src, r = layout.render(toks, rng, 'CPP', dict(bs_cmt=0.1))
    crng = random.Random(cseed)
    k = cseed % 5
    cfgd = {} if k == 0 else family.apply_exclusions(registry.random_cfg(crng, CLASSES, (0.01, 0.03, 0.08, 0.2)[k - 1]), _EX)
    if k in (1, 2):      # the position options move tokens across line breaks (and across // comments if a guard is missing)
        for o in crng.sample(POS_OPTS, 3):
            cfgd[o] = crng.choice(['lead', 'trail', 'lead_break', 'trail_break', 'lead_force', 'trail_force', 'join'])
    return family.Case(src.encode('utf-8'), 'CPP', cfgd, {'kind': 'generated-cpp', 'layout_seed': lseed, 'cfg_seed': cseed})


POS_OPTS = ['pos_arith', 'pos_assign', 'pos_bool', 'pos_compare', 'pos_conditional', 'pos_comma', 'pos_enum_comma', 'pos_class_comma',
            'pos_constr_comma', 'pos_class_colon', 'pos_constr_colon', 'pos_shift']


def iarf_ws_options():
    return [o for o in registry.ws_options() if registry.is_iarf(o)]


def main(ctx):
    quick = ctx.tier == 'quick'
    rng = random.Random(core.subseed(ctx.useed, 'c02'))
    ex = family.exclusions(ctx)
    _EX.update(ex)
    family.set_tier(ctx)
    ctx.rule = ('case = (source bytes, language, whitespace-class config); judged when uncrustify exits 0; non-trivial = output '
                'bytes differ from the input and the input has >= 20 code tokens; distinct by sha256(source, language, config)')
    ctx.assumptions = ['the independent lexer vf/clex.py implements translation phases 1-3 of C/C++/ObjC and the Java lexical grammar',
                       'hook dump tok0 is the tokenizer output (view B cannot see a defect the tokenizer repeats on input and output)',
                       'whitelisted lexical equivalences: >>/>>> vs > > where the passes typed the pieces as angle closers; [] vs [ ]']
    core.replay_regress(ctx, replay)
    files = corpus.files()
    cases = []
    # (a) corpus x configs
    ncfg = 2 if quick else 24
    cfgs = [{}] + family.random_cfgs(core.subseed(ctx.useed, 'a'), ncfg, CLASSES, (0.01, 0.03, 0.08), ex, ctx.counts)
    cfgs += extreme_cfgs(ex, ctx.counts, quick)
    for rel, lang in files:
        src = corpus.read(rel)
        for i, cd in enumerate(cfgs):
            cases.append(family.Case(src, lang, cd, {'kind': 'corpus', 'file': rel, 'cfg_index': i}))
    # (d) single-option sweep over a per-language slice
    opts = iarf_ws_options()
    if quick:
        opts = rng.sample(opts, 40)
    slice_ = []
    for lang in ('C', 'CPP', 'CS', 'D', 'JAVA', 'OC', 'PAWN', 'VALA', 'ECMA'):
        fs = [f for f in files if f[1] == lang and 400 < os.path.getsize(os.path.join(corpus.input_root(), f[0])) < 20000]
        slice_ += rng.sample(fs, min(len(fs), 1 if quick else 3))
    for o in opts:
        for v in ('ignore', 'add', 'remove', 'force'):
            cd = family.apply_exclusions({o['name']: v}, ex, ctx.counts)
            if not cd:
                continue
            for rel, lang in slice_:
                cases.append(family.Case(corpus.read(rel), lang, cd, {'kind': 'sweep', 'file': rel}))
    ctx.extra['sweep_options'] = len(opts)
    # the full sweep (every add/remove/force option of the class x 4 values) on two fixed generated programs
    fixed_c = layout.render(gen_c.fixed_program(7, pp_split=True), random.Random(7), 'C', dict(p_cmt=0.05))[0].encode()
    cpp_toks = []
    for i in range(len(gen_cpp.SNIPPETS)):
        cpp_toks += gen_cpp.tokens_of(gen_cpp.SNIPPETS[i], '%d' % i)
    fixed_cpp = layout.render(cpp_toks, random.Random(8), 'CPP', dict(p_cmt=0.05))[0].encode()
    for o in iarf_ws_options():
        for v in ('ignore', 'add', 'remove', 'force'):
            cases.append(family.Case(fixed_c, 'C', {o['name']: v}, {'kind': 'sweep-fixed', 'file': 'fixed:c'}))
            cases.append(family.Case(fixed_cpp, 'CPP', {o['name']: v}, {'kind': 'sweep-fixed', 'file': 'fixed:cpp'}))
    # every position option x every value on comment-rich renderings of the fixed C++ program (a token that changes lines must not
    # end up behind a '//' comment or inside a directive)
    npos = 0
    for rs in (11, 12, 13):
        rich = layout.render(cpp_toks, random.Random(rs), 'CPP', dict(p_cmt=0.3))[0].encode()
        for o in POS_OPTS:
            for v in ('lead', 'trail', 'lead_break', 'trail_break', 'lead_force', 'trail_force', 'join'):
                cases.append(family.Case(rich, 'CPP', {o: v}, {'kind': 'pos-sweep', 'file': 'fixed:cpp-rich-%d' % rs}))
                npos += 1
    ctx.extra['pos_sweep_cases'] = npos
    # (b) mutated corpus files
    nmut = 2500 if quick else 60000
    small = [f for f in files if os.path.getsize(os.path.join(corpus.input_root(), f[0])) < 12000]
    mcfgs = [{}] + family.random_cfgs(core.subseed(ctx.useed, 'm'), 6 if quick else 30, CLASSES, (0.02, 0.06), ex, ctx.counts)
    for i in range(nmut):
        r = random.Random(core.subseed(ctx.useed, 'mut', i))
        rel, lang = r.choice(small)
        src, names = mutate.mutate(corpus.read(rel), r, r.randint(1, 2),
                                   kinds=['del_line', 'dup_line', 'swap_lines', 'ins_bracket', 'del_bracket'])
        cases.append(family.Case(src, lang, r.choice(mcfgs), {'kind': 'mutant', 'file': rel, 'mut': names, 'i': i}))
    raw = family.explore(ctx, judge, cases)
    # (c) generated programs
    raw += family.hyp_explore(ctx, judge, make_strategy, to_case, shards=16, examples=(70 if quick else 3000))
    raw += family.hyp_explore(ctx, judge, make_strategy_cpp, to_case_cpp, shards=16, examples=(60 if quick else 3000))
    family.triage(ctx, judge, raw)
    acc = ctx.evaluations
    if ctx.counts.get('refused', 0) > 0.5 * max(1, acc + ctx.counts.get('refused', 0)):
        ctx.infra_errors.append('more than half of the cases were refused')
