"""C14  The backup always holds the last text uncrustify did not write itself.

Domain   histories over {user writes u1 / u2 / text equal to a formatted version / the same bytes again, --replace with
         config A, --replace with config B, `-f X -o X` with config A} - ALL histories up to length L are executed against
         the real binary - plus Hypothesis-generated long histories that also contain runs killed at protocol points
         (before the backup write, before the temporary file, before the rename, before / inside the md5 write).
Oracle   (1) reference model of the documented protocol (backup.h): R: if md5(file) != md5rec then backup := file;
             file := f(file); md5rec := md5(file).  File, backup and md5 file are compared with the model after every step.
         (2) the property's invariant, checked directly after every run: the backup holds the last text that uncrustify did
             not write itself (the file's content before the earliest run since the last byte-changing user edit) and the md5
             file names the content uncrustify last left.  A killed run counts as a run: the invariant must hold again after the next
             completed run, whatever protocol point the earlier run died at (directly after a killed run only the C13 invariant
             is required - the backup or the md5 file may be half written).
"""
import hashlib
import itertools
import os
import random

from vf import core, faults, run

BUILDS = ('fast',)
LEVEL = 'exploration'

CFG_A = 'indent_columns=3\nindent_with_tabs=0\nsp_arith=force\nsp_assign=force\n'
CFG_B = 'indent_columns=5\nindent_with_tabs=0\nsp_arith=remove\nsp_assign=remove\nnl_fdef_brace=add\n'
U1 = b'int  a ;\nint   f(int x){return x+1;}\n'
U2 = b'long   b=2 ;\nint g(int y){\nreturn y*2 ;}\n'
NAME = 'src.c'
OPS = ['W1', 'W2', 'WF', 'WS', 'WE', 'RA', 'RB', 'OA']        # WE: the user empties the file (a zero-length text is a text like any other)
KOPS = ['K_backup_write', 'K_temp_open', 'K_temp_write', 'K_rename', 'K_md5_open', 'K_md5_write', 'K_md5_close']

_FMT = {}


def f(cfgname, data):
    k = (cfgname, data)
    if k not in _FMT:
        r, _ = run.fmt(data, 'C', CFG_A if cfgname == 'A' else CFG_B)
        if not r.ok:
            raise RuntimeError('reference formatting failed: %r' % r.brief())
        _FMT[k] = r.out
    return _FMT[k]


def md5(b):
    return hashlib.md5(b).hexdigest()


class Model:
    def __init__(self):
        self.file = None
        self.backup = None
        self.md5rec = None
        # invariant bookkeeping, by content instead of by md5: the text uncrustify last left in the file, and the text the
        # file held at the earliest run since it last differed from that (= the last text uncrustify did not write itself)
        self.last_left = None
        self.expected_backup = None
        self.suspended = False    # after a killed run, until the next user edit

    def write(self, data):
        self.file = data

    def replace(self, cfg):
        if md5(self.file) != self.md5rec:
            self.backup = self.file
        if self.file != self.last_left:
            self.expected_backup = self.file
            self.suspended = False      # a run sees text that uncrustify did not leave there: the invariant applies again
        self.file = f(cfg, self.file)
        self.md5rec = md5(self.file)
        self.last_left = self.file


def read_state(d):
    def rd(n):
        p = os.path.join(d, n)
        return run.read(p) if os.path.exists(p) else None
    m = rd(NAME + '.unc-backup.md5~')
    return rd(NAME), rd(NAME + '.unc-backup~'), (m.split()[0].decode('ascii', 'replace').lower() if m and m.split() else None), m


def find_kill_point(d, argv, which):
    """census on a copy of the directory; returns the census call to kill at, or None"""
    import shutil
    c = d + '.census'
    shutil.copytree(d, c)
    try:
        _, calls = faults.census(argv, c)
    finally:
        shutil.rmtree(c, ignore_errors=True)

    def cls(x):
        p = x.path or ''
        if NAME + '.unc-backup.md5~' in p:
            return 'md5'
        if NAME + '.unc-backup~' in p:
            return 'backup'
        if NAME + '.uncrustify' in p:
            return 'temp'
        return None
    want = {'K_backup_write': ('write', 'backup'), 'K_temp_open': ('openat', 'temp'), 'K_temp_write': ('write', 'temp'),
            'K_rename': ('rename', 'temp'), 'K_md5_open': ('openat', 'md5'), 'K_md5_write': ('write', 'md5'), 'K_md5_close': ('close', 'md5')}[which]
    for x in calls:
        if x.name == want[0] and (cls(x) == want[1] or (want[0] == 'rename' and x.name == 'rename')):
            if want == ('openat', 'md5') and x.mode != 'w':
                continue
            return x
    return None


# large user texts: the md5 / copy code works in 4096-byte chunks and 64-byte blocks, so sizes around those boundaries matter
B1 = b''.join(b'int  a%d ;\nint   f%d(int x){return x+%d;}\n' % (i, i, i) for i in range(330))
B2 = b''.join(b'long   b%d=2 ;\nint g%d(int y){\nreturn y*2 ;}\n' % (i, i) for i in range(120))


def run_history(ops):
    """execute the history; returns (failures, stats).  A leading 'BIG' marker selects the large user texts."""
    fails = []
    m = Model()
    big = bool(ops) and ops[0] == 'BIG'
    if big:
        ops = list(ops[1:])
    U1, U2 = (B1, B2) if big else (globals()['U1'], globals()['U2'])
    F = f('A', U1)
    nruns = 0
    with run.TempDir() as top:
        d = os.path.join(top, 'w')
        os.makedirs(d)
        run.write(os.path.join(d, 'a.cfg'), CFG_A)
        run.write(os.path.join(d, 'b.cfg'), CFG_B)
        p = os.path.join(d, NAME)
        # every history starts with a user file
        run.write(p, U1)
        m.write(U1)
        last_kill = None          # the last killed run's protocol point (None: no run was killed so far)
        for i, op in enumerate(ops):
            sig = {'kind': 'history', 'op': op}
            rep = {'history': list(ops), 'step': i}
            if op[0] == 'W':
                data = {'W1': U1, 'W2': U2, 'WF': F, 'WS': m.file, 'WE': b''}[op]
                run.write(p, data)
                m.write(data)
                continue
            if op in ('RA', 'RB', 'OA'):
                cfg = 'B' if op == 'RB' else 'A'
                argv = ['-c', cfg.lower() + '.cfg', '-q'] + (['-f', NAME, '-o', NAME] if op == 'OA' else ['--replace', NAME])
                r = run.run(argv, cwd=d)
                nruns += 1
                if r.timeout:
                    return fails, {'runs': nruns, 'inconclusive': 1}
                # (for the signature of a failure) does the user's text happen to match a stale md5 record left by a killed run?
                stale_match = bool(last_kill) and m.file != m.last_left and md5(m.file) == m.md5rec
                m.replace(cfg)
                before_backup_expect = m.expected_backup
                got_file, got_backup, got_md5, raw = read_state(d)
                if not r.ok:
                    fails.append((dict(sig, relation='run-failed'), dict(rep, res=r.brief())))
                    return fails, {'runs': nruns}
                if got_file != m.file:
                    fails.append((dict(sig, relation='model-file'), dict(rep, got=core.preview(got_file or b'<none>', 200))))
                if got_backup != m.backup:
                    fails.append((dict(sig, relation='model-backup'),
                                  dict(rep, got=core.preview(got_backup or b'<none>', 200), want=core.preview(m.backup or b'<none>', 200))))
                if got_md5 != m.md5rec:
                    fails.append((dict(sig, relation='model-md5'), dict(rep, got=got_md5, want=m.md5rec)))
                # the property's invariant, directly
                if not m.suspended:
                    if got_backup != before_backup_expect:
                        fails.append((dict(sig, relation='backup-is-not-last-user-text', after_kill=last_kill, user_text_matches_stale_md5=stale_match),
                                      dict(rep, backup=core.preview(got_backup or b'<none>', 200), last_user_text=core.preview(before_backup_expect or b'<none>', 200))))
                    if got_file is not None and got_md5 != md5(got_file):
                        fails.append((dict(sig, relation='md5-does-not-describe-file'), dict(rep, md5_file=got_md5, file_md5=md5(got_file))))
                    if raw is not None and NAME.encode() not in raw:
                        fails.append((dict(sig, relation='md5-file-format'), dict(rep, raw=core.preview(raw, 100))))
                if fails:
                    return fails, {'runs': nruns}
                continue
            # killed run (config A)
            argv = ['-c', 'a.cfg', '-q', '--replace', NAME]
            orig = m.file
            call = find_kill_point(d, argv, op)
            if call is None:
                continue                      # this protocol point does not occur in the current state (e.g. no backup needed)
            r = faults.inject(argv, d, call, ('kill',))
            nruns += 2
            got_file, got_backup, got_md5, raw = read_state(d)
            fa = f('A', orig)
            if got_file not in (orig, fa):
                fails.append((dict(sig, relation='killed-run-path-corrupt'), dict(rep, got=core.preview(got_file or b'<none>', 200))))
                return fails, {'runs': nruns}
            if got_file != orig and got_backup != (orig if md5(orig) != m.md5rec else m.backup):
                fails.append((dict(sig, relation='killed-run-backup'), dict(rep, backup=core.preview(got_backup or b'<none>', 200))))
                return fails, {'runs': nruns}
            # re-synchronise the model with the disk (the next completed run must restore the invariant)
            m.file, m.backup, m.md5rec = got_file, got_backup, got_md5
            if orig != m.last_left:
                m.expected_backup = orig          # the killed run was a run: it saw text that uncrustify had not left there
            if got_file != orig:
                m.last_left = got_file
            last_kill = op
            tmp = os.path.join(d, NAME + '.uncrustify')
            if os.path.exists(tmp):
                os.unlink(tmp)
    return fails, {'runs': nruns}


def nontrivial(ops):
    """>= 2 runs without an edit in between, or an edit between two runs"""
    runs = [i for i, o in enumerate(ops) if o[0] in 'RO']
    return len(runs) >= 2


def do_histories(chunk):
    p = core.Part()
    for ops in chunk:
        try:
            fails, st = run_history(ops)
        except Exception:
            import traceback
            p.infra('history %r: %s' % (ops, traceback.format_exc()[-600:]))
            continue
        p.case(('h',) + tuple(ops), nontrivial(ops), ['len:%d' % len([o for o in ops if o != 'BIG'])] + (['large-files'] if ops and ops[0] == 'BIG' else []))
        p.count('runs', st.get('runs', 0))
        if len(ops) >= 3 and hash(tuple(ops)) % 300 == 0:
            p.sample({'history': ['U1'] + list(ops)}, cap=1)
        for sig, rep in fails:
            p.fail(sig, dict(rep, kind='history'))
    return p.result()


def do_hypothesis(task):
    """Hypothesis-generated long histories incl. killed runs; shrinks to a minimal failing history"""
    seed, n = task
    from hypothesis import given, settings, seed as hseed, strategies as st, HealthCheck
    p = core.Part()
    last_fail = {}

    @hseed(seed)
    @settings(max_examples=n, database=None, deadline=None, report_multiple_bugs=False, derandomize=False,
              suppress_health_check=list(HealthCheck))
    @given(st.lists(st.sampled_from(OPS * 3 + KOPS), min_size=3, max_size=24))
    def prop(ops):
        fails, stt = run_history(ops)
        p.case(('h',) + tuple(ops), nontrivial(ops), ['long:len>=%d' % (8 * (len(ops) // 8)), 'long:kills=%d' % min(3, sum(o.startswith('K') for o in ops))])
        p.count('runs', stt.get('runs', 0))
        if len(ops) > 10:
            p.sample({'history': ['U1'] + list(ops)}, cap=1)
        if fails:
            last_fail['f'] = (ops, fails)
            raise AssertionError(fails[0][0])
    try:
        prop()
    except AssertionError:
        ops, fails = last_fail['f']
        for sig, rep in fails:
            p.fail(sig, dict(rep, kind='history', shrunk=True))
    except Exception:
        import traceback
        p.infra('hypothesis: ' + traceback.format_exc()[-800:])
    return p.result()


def replay(rep):
    return run_history(rep['history'])[0]


def main(ctx):
    core.replay_regress(ctx, replay)
    L = 6 if ctx.tier == 'thorough' else 5
    hs = []
    for n in range(1, L + 1):
        for ops in itertools.product(OPS, repeat=n):
            if not any(o[0] in 'RO' for o in ops):
                continue
            hs.append(list(ops))
    # the same protocol with large files (md5 / copy loops work in chunks): all histories up to length 3
    for n in range(1, 4):
        for ops in itertools.product(OPS, repeat=n):
            if any(o[0] in 'RO' for o in ops):
                hs.append(['BIG'] + list(ops))
    random.Random(ctx.seed).shuffle(hs)
    for part in core.pmap(do_histories, core.chunks(hs, core.NPROC * 8)):
        ctx.merge(part)
    nlong = 600 if ctx.tier == 'thorough' else 80
    tasks = [(core.subseed(ctx.seed, 'c14h', i) % (1 << 62), nlong) for i in range(core.NPROC)]
    for part in core.pmap(do_hypothesis, tasks):
        ctx.merge(part)
    ctx.exhaustive = False
    ctx.extra['histories_up_to_length'] = L
    ctx.extra['bounded_history_space_exhaustive'] = True
    ctx.rule = ('all %d histories of length <= %d over {W(u1), W(u2), W(text equal to f_A(u1)), W(same bytes), --replace cfg A, '
                '--replace cfg B, -f X -o X cfg A} that contain a run, each started from a fresh user file and executed against the '
                'binary with file/backup/md5 compared with the reference model and the invariant after every run; plus %d x %d '
                'Hypothesis-generated histories of length 3..24 that also contain runs killed at 7 protocol points. non-trivial = '
                'history with >= 2 runs; distinct by the operation sequence.' % (len(hs), L, core.NPROC, nlong))
    ctx.assumptions = ['a user write whose bytes equal the text uncrustify last left in the file (md5 recorded) is not a user edit: '
                       'the md5 protocol cannot distinguish it, and the statement speaks of text uncrustify did not write itself',
                       'directly after a killed run only the C13 invariant is required; the backup invariant must hold again after the next completed run',
                       'reference formatting f_cfg(x) comes from stdin-mode runs of the same binary']
