"""C09  Encoding is transparent: commutes with transcoding, Unicode round-trips.

(a) exhaustive: every Unicode scalar value between ASCII guards inside a block comment, a line comment, a string
    literal and (where lexically possible) an identifier, x {UTF-8, UTF-8+BOM, UTF-16LE+BOM, UTF-16BE+BOM}: output bytes
    must equal input bytes (carrier is laid out in the default style).
(b) corpus files (with non-ASCII scalars injected into comments and literals) : f(T_E(x)) == T_E(f(x)).
(c) BOM / encoding matrix against the documented model of utf8_bom / utf8_byte / utf8_force.
(d) invalid input: refused (status != 0, empty stdout) or passed through byte-wise.
"""
import os
import random

from vf import clex, core, corpus, registry, run

BUILDS = ('fast',)
LEVEL = 'exploration'
BLOCK = 4096
ENCODINGS = ['utf8', 'utf8bom', 'utf16le', 'utf16be']
BOM8 = b'\xef\xbb\xbf'


def encode(text, enc):
    if enc == 'utf8':
        return text.encode('utf-8', 'surrogatepass')
    if enc == 'utf8bom':
        return BOM8 + text.encode('utf-8', 'surrogatepass')
    if enc == 'utf16le':
        return b'\xff\xfe' + text.encode('utf-16-le', 'surrogatepass')
    if enc == 'utf16be':
        return b'\xfe\xff' + text.encode('utf-16-be', 'surrogatepass')
    if enc == 'latin1':
        return text.encode('latin-1')
    raise ValueError(enc)


def decode(data, enc):
    """strict decode; returns None when not decodable in that encoding"""
    try:
        if enc == 'utf8':
            return data.decode('utf-8')
        if enc == 'utf8bom':
            return data[3:].decode('utf-8') if data.startswith(BOM8) else None
        if enc == 'utf16le':
            return data[2:].decode('utf-16-le') if data.startswith(b'\xff\xfe') else None
        if enc == 'utf16be':
            return data[2:].decode('utf-16-be') if data.startswith(b'\xfe\xff') else None
    except UnicodeDecodeError:
        return None


def scalars():
    for cp in range(0x110000):
        if 0xD800 <= cp <= 0xDFFF:
            continue
        yield cp


def ident_ok(cp):
    return cp >= 0x80 or chr(cp).isalnum() or cp == 0x5F


def carrier_lines(cp):
    """the lines carrying scalar cp, and the slots used"""
    c = chr(cp)
    out = []
    if cp < 0x20 or cp == 0x7F:
        if cp == 9:
            out.append(('block', '/* a\tb */'))
            out.append(('string', 'const char *s = "a\tb";'))
        return out
    out.append(('block', '/* a%sb */' % c))
    out.append(('line', '// a%sb' % c))
    if c not in '"\\':
        out.append(('string', 'const char *s = "a%sb";' % c))
    if ident_ok(cp):
        out.append(('ident', 'int v%sv;' % c))
    return out


def do_block(case):
    bi, enc = case
    cps = list(scalars())[bi * BLOCK:(bi + 1) * BLOCK] if False else None
    lo = bi * BLOCK
    # map block index to scalar range without materialising all scalars
    allc = []
    cp = lo if lo < 0xD800 else lo + 0x800
    # number of scalars below 0xD800 is 0xD800 = 55296 = 13.5 blocks; handle generally:
    start = bi * BLOCK
    n = 0
    cp = start if start < 0xD800 else start + 0x800
    while n < BLOCK and cp < 0x110000:
        if 0xD800 <= cp <= 0xDFFF:
            cp = 0xE000
            continue
        allc.append(cp)
        cp += 1
        n += 1
    lines = []
    slots = []
    for cp in allc:
        for slot, l in carrier_lines(cp):
            lines.append(l)
            slots.append((cp, slot))
    text = '\n'.join(lines) + '\n'
    data = encode(text, enc)
    r, _ = run.fmt(data, 'C', '')
    fails = []
    verified = 0
    if r.timeout:
        return [], 0, len(slots), 'inconclusive'
    if not r.ok:
        fails.append(({'kind': 'scalar', 'enc': enc, 'relation': 'refused'}, {'block': bi, 'first_cp': allc[0], 'res': r.brief()}))
        return fails, 0, len(slots), 'refused'
    if r.out == data:
        return [], len(slots), len(slots), 'identical'
    out = decode(r.out, enc)
    if out is None:
        fails.append(({'kind': 'scalar', 'enc': enc, 'relation': 'output-not-in-input-encoding'},
                      {'block': bi, 'first_cp': allc[0], 'out_head': core.b64(r.out[:64])}))
        return fails, 0, len(slots), 'undecodable'
    olines = out.split('\n')
    # compare line by line modulo blanks (layout is not the subject), locate the first scalar that is not reproduced
    ws = ' \t'
    bad = None
    if len(olines) == len(lines) + 1:
        for k, (a, b) in enumerate(zip(lines, olines)):
            if a == b:
                verified += 1
                continue
            if ''.join(ch for ch in a if ch not in ws) == ''.join(ch for ch in b if ch not in ws):
                verified += 1
                continue
            bad = (slots[k], a, b)
            break
    else:
        sa = ''.join(ch for ch in text if ch not in ' \t\n')
        sb = ''.join(ch for ch in out if ch not in ' \t\n')
        if sa != sb:
            k = next((i for i, (x, y) in enumerate(zip(sa, sb)) if x != y), min(len(sa), len(sb)))
            bad = ((ord(sa[k]) if k < len(sa) else -1, 'unknown'), sa[max(0, k - 10):k + 10], sb[max(0, k - 10):k + 10])
        else:
            verified = len(slots)
    if bad:
        (cp, slot), a, b = bad
        fails.append(({'kind': 'scalar', 'enc': enc, 'relation': 'scalar-altered', 'slot': slot, 'plane': cp >> 16},
                      {'block': bi, 'cp': 'U+%04X' % cp, 'input_line': a, 'output_line': b}))
        return fails, verified, len(slots), 'altered'
    return [], verified, len(slots), 'layout-only'


# ------------------------------------------------------------------------------------------------ (b) commutation
INJECT = ['é', 'ß', 'Ω', 'ж', '中', '文', ' ', ' ', '﻿', '￿', '😀', '𝔘', '\U0010ffff', 'Ā', '߿', 'ࠀ',
          '퟿', '', '\U00010000', 'ñ', '​', '\u0085']


def inject(text, lang, rng, n=12):
    """insert non-ASCII scalars inside comments and string literals (positions from the independent lexer)"""
    try:
        toks = clex.lex(text, lang)
    except clex.LexError:
        return None
    spots = []
    for k, s, line, off in toks:
        if k == 'cmt_c' and len(s) >= 6:
            spots.append(off + 2 + rng.randrange(1, len(s) - 4))
        elif k == 'cmt_cpp' and len(s) >= 3 and '\\' not in s and '\n' not in s:
            spots.append(off + 2 + rng.randrange(0, len(s) - 1))
        elif k == 'str' and s.startswith('"') and len(s) >= 2 and '\\' not in s and '\n' not in s:
            spots.append(off + 1 + rng.randrange(0, len(s) - 1))
    if not spots:
        return None
    spots = sorted(set(rng.sample(spots, min(n, len(spots)))), reverse=True)
    for p in spots:
        text = text[:p] + rng.choice(INJECT) + text[p:]
    return text


def do_commute(case):
    rel, lang, seed = case
    rng = random.Random(seed)
    raw = corpus.read(rel)
    try:
        text = raw.decode('utf-8')
    except UnicodeDecodeError:
        return [], 'not-utf8'
    if text.startswith('﻿'):
        text = text[1:]
    had = any(ord(c) > 127 for c in text)
    if lang in corpus.CFAMILY and seed % 3 != 0:
        t2 = inject(text, lang, rng)
        if t2 is not None:
            text = t2
    if '\x00' in text:
        return [], 'nul'
    nonascii = any(ord(c) > 127 for c in text)
    cfg = registry.cfg_text(registry.random_cfg(rng, ('WS',), 0.03)) if seed % 2 else ''
    base, _ = run.fmt(encode(text, 'utf8'), lang, cfg)
    if not base.ok:
        return [], 'refused'
    ftext = decode(base.out, 'utf8')
    fails = []
    if ftext is None:
        fails.append(({'kind': 'commute', 'relation': 'utf8-output-invalid'}, {'file': rel, 'cfg': cfg}))
        return fails, 'x'
    for enc in ('utf8bom', 'utf16le', 'utf16be'):
        r, _ = run.fmt(encode(text, enc), lang, cfg)
        want = encode(ftext, enc)
        if r.timeout:
            continue
        if not r.ok or r.out != want:
            got = decode(r.out, enc) if r.ok else None
            where = None
            if got is not None:
                k = next((i for i, (x, y) in enumerate(zip(got, ftext)) if x != y), min(len(got), len(ftext)))
                where = {'at': k, 'utf8_run': ftext[max(0, k - 30):k + 30], 'this_run': got[max(0, k - 30):k + 30]}
            fails.append(({'kind': 'commute', 'enc': enc, 'relation': 'f(T(x))!=T(f(x))', 'decodable': got is not None},
                          {'file': rel, 'lang': lang, 'seed': seed, 'cfg': cfg, 'res': r.brief(), 'diff': where}))
    return fails, ('nonascii' if nonascii else 'ascii')


# ------------------------------------------------------------------------------------------------ (c) BOM matrix
CARRIER = 'int a;\n/* é中😀 */\nconst char *s = "ß𝔘";\n'
CARRIER_L1 = b'int a;\n/* \xe9\xdf\xff */\nconst char *s = "\xe9";\n'       # not valid UTF-8 -> BYTE encoding


def model(inp, bom_in, utf8_bom, utf8_byte, utf8_force):
    """returns (encoding_out, bom_out or None when unspecified)"""
    enc = inp
    if utf8_force or (inp == 'byte' and utf8_byte):
        enc = 'utf8'
    if enc in ('utf16le', 'utf16be'):
        return enc, True
    if enc == 'utf8':
        if inp == 'ascii' and utf8_bom in ('add', 'force'):
            return enc, None              # pure ASCII content: whether a BOM is added is not specified
        return enc, {'remove': False, 'add': True, 'force': True, 'ignore': bom_in}[utf8_bom]
    return enc, (None if utf8_force else False) if inp == 'ascii' else bom_in


def do_matrix(case):
    inp, utf8_bom, utf8_byte, utf8_force, variant = case
    text = CARRIER if inp != 'ascii' else 'int a;\n/* x */\nconst char *s = "y";\n'
    if variant:
        text = text + '// %s\nint b%d;\n' % ('z' if inp == 'ascii' else 'Ωж', variant)
    bom_in = inp in ('utf8bom', 'utf16le', 'utf16be')
    if inp == 'byte':
        data = CARRIER_L1
        chars = data.decode('latin-1')
    else:
        data = encode(text, {'ascii': 'utf8'}.get(inp, inp))
        chars = text
    cfg = 'utf8_bom=%s\nutf8_byte=%s\nutf8_force=%s\n' % (utf8_bom, 'true' if utf8_byte else 'false', 'true' if utf8_force else 'false')
    r, _ = run.fmt(data, 'C', cfg)
    fails = []
    sig = {'kind': 'matrix', 'input': inp}
    rep = {'case': list(case), 'cfg': cfg, 'res': r.brief(), 'out_head': core.b64(r.out[:48])}
    if not r.ok:
        fails.append((dict(sig, relation='refused'), rep))
        return fails
    enc_out, bom_out = model({'utf8bom': 'utf8'}.get(inp, inp), bom_in, utf8_bom, utf8_byte, utf8_force)
    out = r.out
    has8, has16le, has16be = out.startswith(BOM8), out.startswith(b'\xff\xfe'), out.startswith(b'\xfe\xff')
    if enc_out in ('utf16le', 'utf16be'):
        want = encode(chars, enc_out)
        if out != want:
            fails.append((dict(sig, relation='utf16-output-mismatch'), rep))
        return fails
    body = out[3:] if has8 else out
    if has16le or has16be:
        fails.append((dict(sig, relation='unexpected-utf16-bom'), rep))
        return fails
    if bom_out is not None and has8 != bom_out:
        fails.append((dict(sig, relation='bom-presence', want=bom_out, utf8_bom=utf8_bom), rep))
    if enc_out == 'byte':
        if body != data:
            fails.append((dict(sig, relation='byte-content-altered'), rep))
    else:
        want = chars.encode('utf-8')
        if body != want:
            fails.append((dict(sig, relation='utf8-content-mismatch'), rep))
    return fails


# ------------------------------------------------------------------------------------------------ (d) invalid input
def invalid_inputs(rng, n):
    head = b'int a; /* x'
    tail = b'y */\nint b;\n'
    seqs = [
        ('stray_continuation', b'\x80'), ('stray_continuation2', b'\xbf\xbf'), ('truncated_2', b'\xc3'), ('truncated_3', b'\xe4\xb8'),
        ('truncated_4', b'\xf0\x9f\x98'), ('overlong_2_A', b'\xc1\x81'), ('overlong_2_slash', b'\xc0\xaf'), ('overlong_2_nul', b'\xc0\x80'),
        ('overlong_3', b'\xe0\x80\xaf'), ('overlong_3_b', b'\xe0\x9f\xbf'), ('overlong_4', b'\xf0\x80\x80\xaf'), ('overlong_4_b', b'\xf0\x8f\xbf\xbf'),
        ('surrogate_hi', b'\xed\xa0\x80'), ('surrogate_lo', b'\xed\xbf\xbf'), ('surrogate_pair_cesu', b'\xed\xa0\xbd\xed\xb8\x80'),
        ('above_10ffff', b'\xf4\x90\x80\x80'), ('f5_lead', b'\xf5\x80\x80\x80'), ('five_byte', b'\xf8\x88\x80\x80\x80'),
        ('six_byte', b'\xfc\x84\x80\x80\x80\x80'), ('fe_byte', b'\xfe'), ('ff_byte', b'\xff'), ('latin1_word', b'caf\xe9'),
        ('mixed_valid_invalid', 'é'.encode() + b'\xe9'), ('c1_then_ascii', b'\xc1A'),
    ]
    out = []
    for label, s in seqs:
        out.append((label, head + s + tail, None))
        out.append((label + '+bom', BOM8 + head + s + tail, None))
        out.append((label + '@eof', b'int a; // x' + s, None))
        out.append((label + '_in_string', b'const char *s = "a' + s + b'b";\n', None))
        out.append((label + '_in_ident', b'int v' + s + b'v;\n', None))
    t = 'int a;\n/* comment */\nint b;\n'
    le, be = t.encode('utf-16-le'), t.encode('utf-16-be')
    out += [
        ('utf16le_nobom', le, 'bomless16'), ('utf16be_nobom', be, 'bomless16'),
        ('utf16le_odd', b'\xff\xfe' + le + b'\x41', None), ('utf16be_odd', b'\xfe\xff' + be + b'\x00', None),
        ('utf16le_lone_hi', b'\xff\xfe' + 'int a; /* '.encode('utf-16-le') + b'\x3d\xd8' + ' */\n'.encode('utf-16-le'), None),
        ('utf16le_lone_lo', b'\xff\xfe' + 'int a; /* '.encode('utf-16-le') + b'\x00\xde' + ' */\n'.encode('utf-16-le'), None),
        ('utf16be_lone_hi', b'\xfe\xff' + 'int a; /* '.encode('utf-16-be') + b'\xd8\x3d' + ' */\n'.encode('utf-16-be'), None),
        ('utf16le_hi_at_eof', b'\xff\xfe' + 'int a; // '.encode('utf-16-le') + b'\x3d\xd8', None),
        ('utf16le_swapped_pair', b'\xff\xfe' + 'int a; /* '.encode('utf-16-le') + b'\x00\xde\x3d\xd8' + ' */\n'.encode('utf-16-le'), None),
        ('utf16_nobom_short', 'in'.encode('utf-16-le'), None),
        ('embedded_nul', b'int a;\x00int b;\n', None), ('nul_in_comment', b'/* a\x00b */\n', None), ('only_nul', b'\x00', None),
        ('utf32le_bom', b'\xff\xfe\x00\x00' + 'int a;\n'.encode('utf-32-le'), None),
        ('bom8_only', BOM8, None), ('bom16le_only', b'\xff\xfe', None), ('bom16be_only', b'\xfe\xff', None), ('half_bom8', b'\xef\xbb', None),
        ('utf16le_nul_char', b'\xff\xfe' + 'int a;\x00\n'.encode('utf-16-le'), None),
        ('utf16be_ffff', b'\xfe\xff' + 'int a; /* ￿￾ */\n'.encode('utf-16-be'), 'valid'),
    ]
    for i in range(n):
        k = rng.random()
        body = bytearray(('int f(void) { return %d; } /* é中😀 */\n' % i).encode('utf-8'))
        for _ in range(rng.randint(1, 4)):
            p = rng.randrange(len(body))
            if k < 0.5:
                body[p] = rng.randrange(0x80, 0x100)
            else:
                body[p:p] = bytes([rng.randrange(0x80, 0x100)])
        out.append(('random_highbytes', bytes(body), None))
    return out


def nonws(b):
    return bytes(x for x in b if x not in b' \t\r\n\f\v')


def do_invalid(case):
    label, data_b64, mode, cfgsel = case
    data = core.unb64(data_b64)
    cfg = ['', 'utf8_byte=true\n', 'utf8_bom=remove\n', 'utf8_bom=add\n'][cfgsel]
    r, _ = run.fmt(data, 'C', cfg)
    fails = []
    sig = {'kind': 'invalid', 'label': label.split('+')[0].split('@')[0].split('_in_')[0], 'cfgsel': cfgsel}
    rep = {'case': list(case), 'cfg': cfg, 'res': r.brief(), 'input': core.b64(data), 'output': core.b64(r.out[:200])}
    if r.timeout:
        return []
    if r.signal is not None or r.status not in (set([0, 1]) | set(range(64, 79))):
        fails.append((dict(sig, relation='crash'), rep))
        return fails
    if r.status != 0:
        if r.out:
            fails.append((dict(sig, relation='refused-but-wrote-output'), rep))
        return fails
    out, inp = r.out, data
    if mode == 'bomless16':
        for b in (b'\xff\xfe', b'\xfe\xff'):
            if out.startswith(b):
                out = out[2:]
    if cfgsel == 1:
        # utf8_byte=true documents a conversion of undecodable bytes to UTF-8: compare as Latin-1 -> UTF-8
        alt = inp.decode('latin-1').encode('utf-8')
        if nonws(out) in (nonws(inp), nonws(alt)):
            return fails
    if cfgsel == 2 and inp.startswith(BOM8):
        inp = inp[3:]
    if cfgsel == 3 and out.startswith(BOM8) and not inp.startswith(BOM8):
        out = out[3:]
    # compare modulo ASCII white space; in UTF-16 a blank is two bytes, so drop NULs that belong to removed blanks by
    # decoding when possible
    if nonws(out) != nonws(inp):
        d_in = None
        for enc in ('utf16le', 'utf16be'):
            a, b = decode(inp, enc), decode(r.out, enc)
            if a is not None and b is not None and ''.join(a.split()) == ''.join(b.split()):
                d_in = True
        if mode == 'bomless16':
            for cod in ('utf-16-le', 'utf-16-be'):
                try:
                    if ''.join(inp.decode(cod).split()) == ''.join(out.decode(cod).split()):
                        d_in = True
                except UnicodeDecodeError:
                    pass
        if not d_in:
            fails.append((dict(sig, relation='silently-altered'), rep))
    return fails


# ------------------------------------------------------------------------------------------------ driver
def work(chunk):
    p = core.Part()
    for kind, case in chunk:
        try:
            if kind == 'block':
                fails, verified, total, how = do_block(case)
                p.d['evaluations'] += 1
                p.count('scalar_slots_verified', verified)
                p.count('scalar_slots_total', total)
                p.count('blocks_' + how)
                p.d['nontrivial'].add('block:%d:%s' % case)
                p.d['hist']['block:' + case[1]] += 1
                if case[0] % 90 == 3:
                    p.sample({'kind': 'scalar-block', 'block': case[0], 'encoding': case[1], 'first_scalar': 'U+%04X' % (case[0] * BLOCK if case[0] * BLOCK < 0xD800 else case[0] * BLOCK + 0x800),
                              'lines': [l for _, l in carrier_lines(0x4E2D)]}, cap=1)
            elif kind == 'commute':
                fails, cls = do_commute(case)
                p.case(('commute',) + tuple(case), cls == 'nonascii', ['commute:' + cls])
                if cls == 'nonascii' and case[2] % 11 == 0:
                    p.sample({'kind': 'commute', 'file': case[0], 'lang': case[1]}, cap=1)
            elif kind == 'matrix':
                fails = do_matrix(case)
                p.case(('matrix',) + tuple(case), True, ['matrix:' + case[0]])
            else:
                fails = do_invalid(case)
                p.case(('invalid', case[0], case[3]), True, ['invalid'])
                if case[3] == 0 and case[0].startswith('overlong_3'):
                    p.sample({'kind': 'invalid', 'label': case[0], 'input_b64': case[1]}, cap=1)
            for sig, rep in fails:
                p.fail(sig, dict(rep, kind=kind, case=list(case)))
        except Exception:
            import traceback
            p.infra('%s %r: %s' % (kind, str(case)[:100], traceback.format_exc()[-700:]))
    return p.result()


def replay(rep):
    kind, case = rep['kind'], tuple(rep['case'])
    if kind == 'block':
        return do_block(case)[0]
    if kind == 'commute':
        return do_commute(case)[0]
    if kind == 'matrix':
        return do_matrix(case)
    return do_invalid(case)


def main(ctx):
    core.replay_regress(ctx, replay)
    rng = random.Random(core.subseed(ctx.seed, 'c09'))
    nblocks = (0x110000 - 0x800 + BLOCK - 1) // BLOCK
    cs = []
    for bi in range(nblocks):
        for enc in ENCODINGS:
            cs.append(('block', (bi, enc)))
    files = [f for f in corpus.files()]
    ncomm = len(files) * (4 if ctx.tier == 'thorough' else 1)
    pick = files * 4 if ctx.tier == 'thorough' else rng.sample(files, min(len(files), 450))
    for rel, lang in pick:
        cs.append(('commute', (rel, lang, rng.randrange(1 << 30))))
    for inp in ('ascii', 'utf8', 'utf8bom', 'utf16le', 'utf16be', 'byte'):
        for ub in ('ignore', 'add', 'remove', 'force'):
            for by in (False, True):
                for fo in (False, True):
                    for variant in ((0, 1, 2) if ctx.tier == 'thorough' else (0, 1)):
                        cs.append(('matrix', (inp, ub, by, fo, variant)))
    for label, data, mode in invalid_inputs(rng, 2000 if ctx.tier == 'thorough' else 150):
        for cfgsel in range(4):
            cs.append(('invalid', (label, core.b64(data), mode, cfgsel)))
    # big blocks first for load balance
    cs.sort(key=lambda c: 0 if c[0] == 'block' else 1)
    for part in core.pmap(work, [[c] for c in cs if c[0] == 'block'] + core.chunks([c for c in cs if c[0] != 'block'], core.NPROC * 6)):
        ctx.merge(part)
    tot, ver = ctx.counts.get('scalar_slots_total', 0), ctx.counts.get('scalar_slots_verified', 0)
    ctx.exhaustive = False
    ctx.extra['scalar_sweep_exhaustive'] = (tot == ver and not ctx.violations)
    ctx.extra['scalars'] = 0x110000 - 0x800
    ctx.rule = ('(a) all %d Unicode scalar values x 4 encodings, each in a block comment, a line comment, a string literal and an '
                'identifier (%d carrier lines verified of %d), output must equal input; (b) seeded corpus files with non-ASCII '
                'scalars injected into comments/literals, f(T_E(x)) == T_E(f(x)) for E in UTF-8+BOM, UTF-16LE, UTF-16BE; (c) full '
                'input-encoding x utf8_bom x utf8_byte x utf8_force matrix against the documented model; (d) %d invalid byte '
                'sequences x 4 configs: refused or passed through. non-trivial = carrier block (each holds 4096 distinct scalars), '
                'file with non-ASCII content, matrix cell, invalid sequence; distinct by case tuple.'
                % (0x110000 - 0x800, ver, tot, ctx.hist.get('invalid', 0) // 4))
    ctx.assumptions = ['C0 control characters other than TAB are not placed in the carriers (NUL is refused by design, CR/LF/FF/VT are layout)',
                       'whether utf8_bom=add adds a BOM to pure-ASCII content is treated as unspecified',
                       'BOM-less UTF-16 that uncrustify recognises is allowed to gain a BOM (the statement: UTF-16 output always carries one)']
