"""C05  Formatting is a fixed point: re-formatting formatted output changes nothing.

Domain   P = built-in default + the curated style profiles in /verif/profiles (copies of the styles shipped in etc/ without the options
         that name external files; freebsd, amxmodx and sun are not claimed: too many unstable corpus pairs / hangs).
         (a) fixed universe: every C / C++ corpus file x P  (quick: default + 3 seeded profiles; thorough: all of P) with the unstable
             pairs listed individually in the ledger by (profile, path, sha256 of the file);
         (b) Hypothesis-generated C programs in random layouts x P, histories x -> o1 -> o2 -> o3;
         (c) weaker claim: corpus files that compile stand-alone and generated programs x random whitespace / mod_ configs: the second
             pass must accept o1.
Oracle   (a, b) o2 == o1 and o3 == o2 bytewise, `--check` on o1 exits 0 and prints PASS;  (c) exit status 0 of the second pass.
"""
import hashlib
import os
import random

from vf import core, corpus, family, gen_c, layout, registry, run

BUILDS = ('fast',)
LEVEL = 'exploration'
PROFILE_DIR = os.path.join(core.ROOT, 'profiles')


def profiles():
    return ['<default>'] + sorted(n[:-4] for n in os.listdir(PROFILE_DIR) if n.endswith('.cfg'))


def profile_text(name):
    if name == '<default>':
        return ''
    return open(os.path.join(PROFILE_DIR, name + '.cfg'), errors='replace').read()


def fmt(src, lang, cfg, args=()):
    r, _ = run.fmt(src, lang, cfg, args=args)
    return r


def firstdiff(a, b):
    i = next((k for k in range(min(len(a), len(b))) if a[k] != b[k]), min(len(a), len(b)))
    ln = a.count(b'\n', 0, i) + 1
    return i, ln


def judge(case):
    ex = case.extra or {}
    prof = ex.get('profile')
    cfg = profile_text(prof) if prof is not None else case.cfg
    r1 = fmt(case.src, case.lang, cfg)
    if r1.timeout:
        return {'inconclusive': True}, []
    if not r1.ok:
        return {'counts': ['refused'], 'classes': ['refused:' + case.lang]}, []
    o1 = r1.out
    fails = []
    r2 = fmt(o1, case.lang, cfg)
    if r2.timeout:
        return {'inconclusive': True}, []
    tag = 'profile:%s' % prof if prof is not None else 'random-config'
    pair = '%s|%s|%s' % (prof, (case.origin or {}).get('file'), hashlib.sha256(case.src).hexdigest()[:16]) if prof is not None else None

    def kind_of(a, ln, b):
        # what kind of line holds the first difference (root-cause family for the signature)
        A, B = a.split(b'\n'), b.split(b'\n')
        x = A[ln - 1] if ln - 1 < len(A) else b''
        y = B[ln - 1] if ln - 1 < len(B) else b''
        prev = next((A[k] for k in range(ln - 2, -1, -1) if A[k].strip()), b'')
        in_cmt = a.rfind(b'/*', 0, a.find(x) if x else 0) > a.rfind(b'*/', 0, a.find(x) if x else 0) if x else False
        if x.split() != y.split():
            if b''.join(x.split()) == b''.join(y.split()):
                return 'blanks-between-tokens'
            return 'tokens-or-line-breaks'
        if in_cmt or x.lstrip().startswith(b'*'):
            # a comment that starts its own line is indented with the code; one that trails code keeps a column relative to it
            k = a.rfind(b'/*', 0, a.find(x) if x else 0)
            first = a[a.rfind(b'\n', 0, k) + 1:k] if k >= 0 else b'x'
            return 'inside-multi-line-comment' if first.strip() else 'inside-own-line-multi-line-comment'
        if x.lstrip() == y.lstrip():
            import re as _re0
            if x.lstrip().startswith((b'//', b'/*')) and _re0.search(rb'\S\s*(/\*(?:[^*]|\*(?!/))*\*/|//.*)$', prev.rstrip()):
                # a comment that starts its own line directly behind a line that ends in a trailing comment
                return 'leading-blanks-of-comment-behind-trailing-comment'
            pr = prev.rstrip()
            # (a comment that trails code does not end a statement: judge the code in front of it)
            while True:
                pr2 = _re0.sub(rb'\s*(/\*(?:[^*]|\*(?!/))*\*/|//.*)$', b'', pr)
                if pr2 == pr or not pr2.strip():
                    break
                pr = pr2.rstrip()
            # (a line-final ':' ends a label or a case line; after anything else it is the colon of a conditional expression)
            label_end = pr.endswith(b':') and _re0.match(rb'\s*(case\b.*|default\s*|[A-Za-z_]\w*\s*|(public|private|protected)\s*):$', pr) is not None
            if pr.endswith((b';', b'{', b'}', b'*/')) or label_end or prev.lstrip().startswith((b'#', b'//')):
                return 'leading-blanks-of-statement-line'
            return 'leading-blanks-of-continuation-line'
        import re as _re
        cx = _re.split(rb'(?=/\*|//)', x, 1)
        cy = _re.split(rb'(?=/\*|//)', y, 1)
        if len(cx) == 2 and len(cy) == 2 and cx[1] == cy[1] and cx[0].rstrip() == cy[0].rstrip():
            return 'gap-before-trailing-comment'
        return 'blanks-inside-line'

    def fail(rel, cls, a, b, extra=''):
        i, ln = firstdiff(a, b) if a is not None else (0, 0)
        if a is not None and b is not None:
            cls = cls + ':' + kind_of(a, ln, b)
        la = a.split(b'\n')[ln - 1:ln + 1] if a is not None else []
        lb = b.split(b'\n')[ln - 1:ln + 1] if b is not None else []
        fails.append((rel, {'class': cls, 'at': [tag], 'got': [pair or extra], 'index': ln, 'in': [repr(x) for x in la], 'out': [repr(x) for x in lb],
                            'first_in': pair or tag, 'first_out': extra}))

    if not r2.ok:
        fail('second-pass-accepts', 'second-pass-refused', None, None, 'exit %s' % r2.status)
    elif prof is not None:
        if r2.out != o1:
            fail('fixed-point', 'o2-differs-from-o1', o1, r2.out)
        else:
            r3 = fmt(r2.out, case.lang, cfg)
            if r3.ok and r3.out != r2.out:
                fail('fixed-point', 'o3-differs-from-o2', r2.out, r3.out)
            # --check on o1
            with run.TempDir() as d:
                run.write(os.path.join(d, 'c.cfg'), cfg)
                name = 'x' + run.LANG_EXT.get(case.lang, '.c')
                run.write(os.path.join(d, name), o1)
                rc = run.run(['-c', 'c.cfg', '-l', case.lang, '--check', name], cwd=d)
                if not rc.timeout and (rc.status != 0 or b'PASS' not in rc.out + rc.err):
                    fail('check-passes', 'check-fails-on-formatted', None, None, 'exit %s' % rc.status)
    info = {'nontrivial': o1 != case.src and len(case.src) > 120,
            'classes': ['lang:' + case.lang, 'origin:' + (case.origin or {}).get('kind', '?'), tag],
            'sample': {'origin': case.origin, 'lang': case.lang, 'profile': prof, 'cfg': case.cfgd if prof is None else None, 'bytes': len(case.src)}}
    return info, fails


def make_sig_extra(case):
    return None


replay = family.replay_case(judge)
_EX = {}


def make_strategy():
    from hypothesis import strategies as st
    return st.tuples(gen_c.c_program(max_depth=4, max_funcs=3, lits='no-raw-tab'), st.integers(0, 2 ** 32 - 1), st.integers(0, 2 ** 32 - 1))


_PROFS = []


def to_case(v):
    toks, lseed, cseed = v
    cseed = family.cfg_seed(cseed)
    rng = random.Random(lseed)
    # a calm layout: single blanks, no tabs between tokens, single-line comments.  Wild original spacing is preserved by the many
    # `ignore` defaults and drifts by a column per pass (known findings C05-K2/K3, kept as regress replays); generating it would end
    # every search in one of those
    src, r = layout.render(toks, rng, 'C', dict(p_cmt=rng.choice([0, 0.05, 0.15]), blank=2, nonascii=False, p_multi=0.0, p_tab=0.0,
                                                multi_cmt=True, unstarred_cmt=False, box_cmt=0.2, cmt_tab=False, p_trail=0.05, p_join=0.0, indent=rng.choice(['canon', 'random', 'none'])))
    if cseed % 4 == 3:
        crng = random.Random(cseed)
        cfgd = family.apply_exclusions(registry.random_cfg(crng, ('WS', 'MOD'), (0.02, 0.06)[cseed % 2]), _EX)
        return family.Case(src.encode('utf-8'), 'C', cfgd, {'kind': 'generated', 'layout_seed': lseed, 'cfg_seed': cseed})
    prof = _PROFS[cseed % len(_PROFS)]
    return family.Case(src.encode('utf-8'), 'C', {}, {'kind': 'generated', 'layout_seed': lseed}, {'profile': prof})


def main(ctx):
    quick = ctx.tier == 'quick'
    rng = random.Random(core.subseed(ctx.useed, 'c05'))
    _EX.update(family.exclusions(ctx))
    family.set_tier(ctx)
    P = profiles()
    # generated programs: kr-indent / linux-indent ('}else{' needs two passes) and linux (brace removal happens on the second pass) fail on
    # 1-4 % of all generated programs and are only claimed over the corpus universe, pair by pair
    _PROFS.extend(p for p in P if p not in ('kr-indent', 'linux-indent', 'linux'))
    ctx.rule = ('case = (source, language, profile or config); 3-4 executions (format, format again, once more, --check); non-trivial = the first '
                'pass changes the input and the input is longer than 120 bytes; distinct by sha256(source, profile/config)')
    ctx.assumptions = ['the profile set is /verif/profiles/*.cfg + the built-in default; known unstable (profile, file) pairs are listed one by one in '
                       'known_findings.json']
    ctx.extra['profiles'] = P
    core.replay_regress(ctx, replay)
    files = [f for f in corpus.files() if f[1] in ('C', 'CPP')]
    use = P if not quick else ['<default>'] + rng.sample(P[1:], 2)
    ctx.extra['profiles_this_run'] = use
    if not quick:
        ctx.exhaustive = True       # (a): the whole fixed universe corpus(C, C++) x P
    cases = []
    for rel, lang in files:
        src = corpus.read(rel)
        for p in use:
            cases.append(family.Case(src, lang, {}, {'kind': 'corpus', 'file': rel}, {'profile': p}))
    # (a2) enumerated comment shapes: a statement with a trailing comment, an own-line comment behind it at every column 0..14 - the shape
    # on which the rules that line comments up with their neighbours (indent_comment_align_thresh ...) look at the input's columns
    for kind2 in ('//', '/*'):
        for col in range(0, 15):
            for gap, ind in ((1, 0), (1, 4), (4, 4), (1, 12), (2, 0)):      # (gap in front of the trailing comment, input indent of the statement)
                c1 = '// c1' if kind2 == '//' else '/* c1 */'
                c2 = '// c2' if kind2 == '//' else '/* c2 */'
                for st_ in ('x;', 'x = 1;'):       # (a short statement: its trailing comment ends up within the alignment threshold of the indent)
                    for tail_ in ('    y = 2;\n', ''):          # (followed by a statement / by the closing brace)
                        src = 'void f(void)\n{\n%s%s%s%s\n%s%s\n%s}\n' % (' ' * ind, st_, ' ' * gap, c1, ' ' * col, c2, tail_)
                        for p in use:
                            cases.append(family.Case(src.encode(), 'C', {}, {'kind': 'comment-shape',
                                                                               'file': 'shape:cmt|%s|%d|%d|%d|%d|%d' % (kind2, col, gap, ind, len(st_), len(tail_))},
                                                     {'profile': p}))
    # (a3) enumerated macro comment shapes: a multi-line comment inside a multi-line '#define', every width of the gap in front of the
    # continuation backslash x blanks / tabs behind the backslash (what the first pass strips there the second pass must not see differently)
    for gap in ('', ' ', '  ', '     ', '\t'):
        for trail in ('', ' ', '   ', '\t'):
            for body in ('   /* first line%s\\%s\n      second line%s\\%s\n      last */%s\\%s\n   do_it(x)\n',
                         '   do_it(x); /* c1%s\\%s\n    * c2%s\\%s\n    */%s\\%s\n   more(x)\n'):
                src = '#define M(x) \\\n' + body % (gap, trail, gap, trail, gap, trail) + 'int after;\n'
                for p in use:
                    cases.append(family.Case(src.encode(), 'C', {}, {'kind': 'macro-comment-shape', 'file': 'shape:mcmt|%r|%r|%d' % (gap, trail, len(body))},
                                             {'profile': p}))
    # (c) weaker claim on random configs
    rc = family.random_cfgs(core.subseed(ctx.useed, 'c'), 3 if quick else 20, ('WS', 'MOD'), (0.02, 0.05, 0.1), _EX, ctx.counts)
    # "well-formed programs": the corpus files that compile stand-alone (many corpus inputs are fragments)
    from checks import c01
    cand = [f for f in corpus.files() if f[1] in ('C', 'CPP')]
    comp = sorted((rel, lang) for rel, lang, ok in core.pmap(c01.compilable, cand, chunksize=8) if ok)
    ctx.extra['compilable_corpus_files'] = len(comp)
    for rel, lang in comp:
        src = corpus.read(rel)
        for k in range(2 if quick else 6):
            cases.append(family.Case(src, lang, rc[(k + len(cases)) % len(rc)], {'kind': 'corpus-random-config', 'file': rel}))
    raw = family.explore(ctx, judge, cases)
    raw += family.hyp_explore(ctx, judge, make_strategy, to_case, shards=16, examples=(150 if quick else 1000))
    family.triage(ctx, judge, raw, minimise_src=False, per_cluster=400, max_clusters=400)
