"""C10  Output depends only on (bytes, language, configuration, file name).

Domain   seeded corpus files of all languages (named input<ext> with the canonical extension of their language) x config
         {default, seeded random WS / WS+MOD} x delivery/output mode x subsets of observer options x environment variations.
Oracle   differential: formatted bytes of every mode == bytes of the reference mode (-f NAME -l LANG to stdout);
         set of files created == the documented set of the mode.  thorough adds a valgrind sample (uninitialised reads).
"""
import itertools
import os
import random

from vf import core, corpus, registry, run

BUILDS = ('fast',)
LEVEL = 'exploration'

EXT = {'C': '.c', 'CPP': '.cpp', 'D': '.d', 'CS': '.cs', 'JAVA': '.java', 'OC': '.m', 'OC+': '.mm', 'VALA': '.vala', 'PAWN': '.pawn',
       'ECMA': '.es'}
OBSERVERS = ['-p', '-L', '-s', '-q', '--dump-steps', '--debug-csv-format']


def listdir(d):
    out = set()
    for dp, dn, fn in os.walk(d):
        for f in fn:
            out.add(os.path.relpath(os.path.join(dp, f), d))
    return out


def observer_args(obs, rng, have_f):
    """argv fragment + files it may create (prefixes)"""
    a, created = [], []
    if '-p' in obs and have_f:
        a += ['-p', 'parsed.txt']
        created.append('parsed.txt')
        if '--debug-csv-format' in obs:
            a += ['--debug-csv-format']
    if '-L' in obs:
        a += ['-L', rng.choice(['A', '0-2,20-23,51', '1-200', '66', 'A'])]
    if '-s' in obs:
        a += ['-s']
    if '-q' in obs:
        a += ['-q']
    if '--dump-steps' in obs and have_f:
        a += [rng.choice(['--dump-steps', '-ds']), 'steps']
        created.append('steps_')
    return a, created


def do_case(case):
    rel, lang, seed = case
    rng = random.Random(seed)
    src = corpus.read(rel)
    name = 'input' + EXT[lang]
    k = seed % 4
    if k == 0:
        cfgd = {}
    elif k in (1, 2):
        cfgd = registry.random_cfg(rng, ('WS',), 0.04)
    else:
        cfgd = registry.random_cfg(rng, ('WS', 'MOD'), 0.05)
    if lang in ('C', 'CPP', 'OC') and rng.random() < 0.25:
        # options whose effect depends on the file's own name: an include block that holds the file's own header, sorted with the
        # own header first - however the file is named on the command line (bare, './', absolute, with a directory)
        src = b'#include "zeta.h"\n#include "input.h"\n#include <vector>\n#include "alpha.h"\n' + src
        cfgd.update({'mod_sort_include': 'true', 'mod_sort_incl_import_prioritize_filename': 'true'})
    cfg = registry.cfg_text(cfgd)
    fails = []
    nmodes = 0

    with run.TempDir() as top:
        run.write(os.path.join(top, 'c.cfg'), cfg)

        def fresh():
            d = os.path.join(top, 'w%d' % rng.randrange(1 << 30))
            os.makedirs(d)
            run.write(os.path.join(d, name), src)
            return d
        d0 = fresh()
        ref = run.run(['-c', '../c.cfg', '-l', lang, '-q', '-f', name], cwd=d0)
        if ref.timeout or not ref.ok:
            return [], 'ref-refused', 0
        R = ref.out
        if listdir(d0) != {name}:
            fails.append(({'kind': 'mode', 'mode': 'reference', 'relation': 'files-created'}, {'case': list(case), 'files': sorted(listdir(d0))}))

        def judge(mode, got, res, created, d, expect_files, obs=()):
            nonlocal nmodes
            nmodes += 1
            sig = {'kind': 'mode', 'mode': mode, 'observers': sorted(obs)}
            rep = {'case': list(case), 'cfg': cfg, 'mode': mode, 'observers': sorted(obs), 'argv': [str(x) for x in res.argv[1:]],
                   'res': res.brief()}
            if res.timeout:
                return
            if res.status != 0 or res.signal is not None:
                fails.append((dict(sig, relation='exit-status'), rep))
                return
            if got != R:
                i = next((j for j, (x, y) in enumerate(zip(got, R)) if x != y), min(len(got), len(R)))
                fails.append((dict(sig, relation='bytes-differ'),
                              dict(rep, at=i, ref=core.preview(R[max(0, i - 60):i + 60]), got=core.preview(got[max(0, i - 60):i + 60]))))
            files = listdir(d)
            extra = set()
            for f in files - set(expect_files):
                if not any(f.startswith(c) for c in created):
                    extra.add(f)
            missing = set(expect_files) - files
            if extra or missing:
                fails.append((dict(sig, relation='files-created'), dict(rep, unexpected=sorted(extra), missing=sorted(missing))))

        base = ['-c', '../c.cfg']
        # ---- delivery / output modes, each with a seeded subset of observers
        modes = ['stdin_assume', 'stdin_l', 'stdin_assume_l', 'f_ext', 'f_o', 'pos_default', 'pos_suffix', 'pos_prefix', 'F_list', 'F_stdin',
                 'replace', 'no_backup', 'f_o_same', 'pos_l', 'f_dotslash', 'f_abs', 'pos_parent_dir']
        for mode in modes:
            obs = set(o for o in OBSERVERS if rng.random() < 0.3)
            if mode in ('f_ext',) and rng.random() < 0.5:
                obs |= {'-p', '--dump-steps'}
            d = fresh()
            have_f = mode in ('f_ext', 'f_o', 'f_o_same')
            oa, created = observer_args(obs, rng, have_f)
            if mode == 'stdin_assume':
                r = run.run(base + ['--assume', name] + oa, stdin=src, cwd=d)
                judge(mode, r.out, r, created, d, {name}, obs)
            elif mode == 'stdin_l':
                r = run.run(base + ['-l', lang] + oa, stdin=src, cwd=d)
                # the file name is 'stdin' here: only claimed equal when no name-dependent option is set
                if not any(n.startswith('mod_sort') or 'include' in n for n in cfgd):
                    judge(mode, r.out, r, created, d, {name}, obs)
            elif mode == 'stdin_assume_l':
                r = run.run(base + ['--assume', name, '-l', lang] + oa, stdin=src, cwd=d)
                judge(mode, r.out, r, created, d, {name}, obs)
            elif mode == 'f_ext':
                r = run.run(base + [rng.choice(['-f', '--file']), name] + oa, cwd=d)
                judge(mode, r.out, r, created, d, {name}, obs)
            elif mode == 'f_dotslash':
                r = run.run(base + ['-f', './' + name] + oa, cwd=d)
                judge(mode, r.out, r, created, d, {name}, obs)
            elif mode == 'f_abs':
                r = run.run(base + ['-f', os.path.join(d, name)] + oa, cwd=d)
                judge(mode, r.out, r, created, d, {name}, obs)
            elif mode == 'pos_parent_dir':
                # run from the parent directory: the file is named with a directory part, the output goes next to it
                rel_ = os.path.join(os.path.basename(d), name)
                r = run.run(['-c', 'c.cfg'] + oa + [rel_], cwd=top)
                t = name + '.uncrustify'
                got = run.read(os.path.join(d, t)) if os.path.exists(os.path.join(d, t)) else b'<missing>'
                judge(mode, got, r, [], d, {name, t}, obs)
            elif mode == 'f_o':
                r = run.run(base + ['-l', lang, '-f', name, '-o', 'out.txt'] + oa, cwd=d)
                got = run.read(os.path.join(d, 'out.txt')) if os.path.exists(os.path.join(d, 'out.txt')) else b'<missing>'
                judge(mode, got, r, created, d, {name, 'out.txt'}, obs)
            elif mode == 'f_o_same':
                r = run.run(base + ['-l', lang, '-f', name, '-o', name] + oa, cwd=d)
                got = run.read(os.path.join(d, name))
                exp = {name}
                if got != src:
                    exp |= {name + '.unc-backup~', name + '.unc-backup.md5~'}
                judge(mode, got, r, created + [name + '.unc-backup'], d, exp, obs)
            elif mode in ('pos_default', 'pos_suffix', 'pos_prefix', 'pos_l'):
                extra = {'pos_default': [], 'pos_suffix': ['--suffix', '.sfx'], 'pos_prefix': ['--prefix', 'outdir'],
                         'pos_l': ['-l', lang]}[mode]
                r = run.run(base + extra + oa + [name], cwd=d)
                target = {'pos_default': name + '.uncrustify', 'pos_suffix': name + '.sfx', 'pos_prefix': os.path.join('outdir', name),
                          'pos_l': name + '.uncrustify'}[mode]
                got = run.read(os.path.join(d, target)) if os.path.exists(os.path.join(d, target)) else b'<missing>'
                judge(mode, got, r, created, d, {name, target}, obs)
            elif mode == 'F_list':
                run.write(os.path.join(d, 'list.txt'), name + '\n')
                # (the short and the long spelling of the option, seeded)
                r = run.run(base + [rng.choice(['-F', '--files']), 'list.txt'] + oa, cwd=d)
                t = name + '.uncrustify'
                got = run.read(os.path.join(d, t)) if os.path.exists(os.path.join(d, t)) else b'<missing>'
                judge(mode, got, r, created, d, {name, t, 'list.txt'}, obs)
            elif mode == 'F_stdin':
                r = run.run(base + ['-F', '-'] + oa, stdin=(name + '\n').encode(), cwd=d)
                t = name + '.uncrustify'
                got = run.read(os.path.join(d, t)) if os.path.exists(os.path.join(d, t)) else b'<missing>'
                judge(mode, got, r, created, d, {name, t}, obs)
            elif mode == 'replace':
                r = run.run(base + ['--replace'] + oa + [name], cwd=d)
                got = run.read(os.path.join(d, name))
                exp = {name, name + '.unc-backup~', name + '.unc-backup.md5~'}
                judge(mode, got, r, created, d, exp, obs)
            elif mode == 'no_backup':
                r = run.run(base + ['--no-backup'] + oa + [name], cwd=d)
                got = run.read(os.path.join(d, name))
                judge(mode, got, r, created, d, {name}, obs)
        # ---- every single observer alone and all together on -f (full subsets in thorough via more seeds)
        combos = [(o,) for o in OBSERVERS] + [tuple(OBSERVERS)] + [tuple(rng.sample(OBSERVERS, 3))]
        for obs in combos:
            d = fresh()
            oa, created = observer_args(set(obs), rng, True)
            r = run.run(base + ['-l', lang, '-f', name] + oa, cwd=d)
            judge('f_observers', r.out, r, created, d, {name}, obs)
        # ---- environment
        envs = [('LC_ALL=C.utf8', {'LC_ALL': 'C.utf8'}, None), ('LANG=de_DE', {'LC_ALL': '', 'LANG': 'de_DE.UTF-8', 'LC_NUMERIC': 'de_DE'}, None),
                ('TZ', {'TZ': 'Pacific/Kiritimati'}, None), ('HOME=cwd', {'HOME': '.'}, None), ('TERM', {'TERM': 'dumb', 'COLUMNS': '20'}, None),
                ('no-aslr', {}, ['setarch', '-R']), ('repeat1', {}, None), ('repeat2', {}, None), ('UNCRUSTIFY_CONFIG-unused', {'UNCRUSTIFY_CONFIG': '/nonexistent.cfg'}, None),
                ('many-env', {('V%d' % i): 'x' * 200 for i in range(60)}, None)]
        for label, env, prefix in envs:
            d = fresh()
            r = run.run(base + ['-l', lang, '-q', '-f', name], cwd=d, env=env, prefix=prefix)
            judge('env:' + label, r.out, r, [], d, {name})
        # ---- working directory: same relative name from a sub directory of another cwd
        d = fresh()
        sub = os.path.join(d, 'a', 'b')
        os.makedirs(sub)
        os.rename(os.path.join(d, name), os.path.join(sub, name))
        r = run.run(['-c', '../../../c.cfg', '-l', lang, '-q', '-f', name], cwd=sub)
        judge('cwd:subdir', r.out, r, [], sub, {name})
    return fails, ('changed' if R != src else 'unchanged'), nmodes


def do_valgrind(case):
    rel, lang, seed = case
    rng = random.Random(seed)
    src = corpus.read(rel)
    cfg = registry.cfg_text(registry.random_cfg(rng, ('WS', 'MOD'), 0.05)) if seed % 2 else ''
    with run.TempDir() as d:
        run.write(os.path.join(d, 'c.cfg'), cfg)
        run.write(os.path.join(d, 'in'), src)
        r = run.run(['-c', 'c.cfg', '-l', lang, '-q', '-f', 'in'], cwd=d, cpu=300,
                    prefix=['valgrind', '-q', '--error-exitcode=97', '--track-origins=no', '--undef-value-errors=yes'])
        if r.status == 97:
            return [({'kind': 'valgrind', 'relation': 'uninitialised-or-invalid-access'},
                     {'case': list(case), 'cfg': cfg, 'stderr': core.preview(r.err, 1500)})]
    return []


def work(chunk):
    p = core.Part()
    for kind, case in chunk:
        try:
            if kind == 'modes':
                fails, cls, n = do_case(case)
                p.d['evaluations'] += max(n, 1)
                if cls == 'changed':
                    p.d['nontrivial'].add(core.sha(case))
                p.d['hist']['input:' + cls] += 1
                p.d['hist']['lang:' + case[1]] += 1
                p.count('mode_comparisons', n)
                if cls == 'changed' and case[2] % 17 == 0:
                    p.sample({'file': case[0], 'lang': case[1], 'seed': case[2], 'comparisons': n}, cap=1)
            else:
                fails = do_valgrind(case)
                p.case(('valgrind',) + tuple(case), True, ['valgrind'])
            for sig, rep in fails:
                p.fail(sig, dict(rep, kind=kind))
        except Exception:
            import traceback
            p.infra('%s %r: %s' % (kind, case, traceback.format_exc()[-700:]))
    return p.result()


def replay(rep):
    case = tuple(rep['case'])
    if rep['kind'] == 'valgrind':
        return do_valgrind(case)
    return do_case(case)[0]


def main(ctx):
    core.replay_regress(ctx, replay)
    rng = random.Random(core.subseed(ctx.seed, 'c10'))
    n = 4000 if ctx.tier == 'thorough' else 600
    files = [f for f in corpus.files() if f[1] in EXT and os.path.getsize(os.path.join(corpus.input_root(), f[0])) <= 9000]
    bylang = {}
    for f in files:
        bylang.setdefault(f[1], []).append(f)
    pick = []
    for lang, fs in bylang.items():       # every language is represented
        pick += rng.sample(fs, min(len(fs), 8 if ctx.tier == 'quick' else 40))
    while len(pick) < n:
        pick.append(rng.choice(files))
    cs = [('modes', (rel, lang, rng.randrange(1 << 30))) for rel, lang in pick[:max(n, len(pick))]]
    if ctx.tier == 'thorough':
        for rel, lang in rng.sample(files, 48):
            cs.append(('valgrind', (rel, lang, rng.randrange(1 << 30))))
    rng.shuffle(cs)
    for part in core.pmap(work, core.chunks(cs, core.NPROC * 6)):
        ctx.merge(part)
    ctx.rule = ('seeded corpus files of all languages x seeded config x {14 delivery/output modes each with a seeded subset of the '
                'observers -p, -L, -s, -q, --dump-steps/-ds, --debug-csv-format; each observer alone and all together; 10 environment '
                'variations incl. locale, TZ, HOME, ASLR off, repeats; a different working directory}: every produced byte string is '
                'compared with the reference mode and the created-file set with the documented set. evaluations = mode comparisons; '
                'non-trivial = input whose formatted text differs from the input; distinct by (file, seed).')
    ctx.assumptions = ['the reference mode is `-f input<ext> -l LANG -q` to stdout of the same binary',
                       'stdin with -l only (file name "stdin") is compared only when no include-sorting option is set',
                       'files larger than 9 KB are not drawn (-L A produces megabytes of log)']
