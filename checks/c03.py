"""C03  Comments and literals survive intact.

Domain   (a) corpus universe (all languages) x {default, seeded whitespace-class configs}
         (b) Hypothesis-generated C programs with a comment in (nearly) every trivia slot: after `do`, before `{`, between `)` and
             `{`, inside macro bodies and arguments, before `else`, at EOF without newline; block comments with and without star
             leaders, tabs / non-ASCII / comment-openers inside, `// ... \\<blank>` comments, string and character literals with
             tabs, escapes, `//` and `/*` inside
         (c) literal carriers: hand-written frames for C++ raw strings, continued C strings, C# verbatim strings, Java text blocks,
             D/Vala/ObjC literals with generated contents (newlines, tabs after spaces, quotes, comment openers, delimiters)
         configs: whitespace-class options at any value; cmt_*, sp_cmt_cpp_*, string_replace_tab_chars, header insertion at default.
Oracle   comment stream (kind, text) equal in order and count after the only normalisation the statement allows (per continuation
         line: leading blanks, one star leader with the blanks after it, trailing blanks, the repeated `//`); literal tokens
         byte-identical in order.  View A = independent lexer (C family), view B = tok0 hook dump of input vs re-tokenised output.
"""
import os
import random

from vf import gen_cpp, clex, core, corpus, family, gen_c, layout, registry, tokrel

BUILDS = ('fast',)
LEVEL = 'exploration'
CLASSES = ('WS',)


def _seqdiff(a, b, cls):
    d = tokrel.first_diff(a, b)
    if d is None:
        return None
    i = d['index']
    x = a[i] if i < len(a) else None
    y = b[i] if i < len(b) else None
    tx = (x[1] if isinstance(x, tuple) else x) if x is not None else '<none>'
    ty = (y[1] if isinstance(y, tuple) else y) if y is not None else '<none>'
    kind = 'count' if len(a) != len(b) else 'text'
    if kind == 'text' and ' '.join(tx.split()) == ' '.join(ty.split()):
        kind = 'text-blanks-only'
    return {'class': '%s-%s' % (cls, kind), 'at': [core.preview(tx, 60)], 'got': [core.preview(ty, 60)], 'index': i,
            'in': [core.preview(tx, 300)], 'out': [core.preview(ty, 300)], 'first_in': core.preview(tx, 80), 'first_out': core.preview(ty, 80),
            'detail': {'n_in': len(a), 'n_out': len(b)}}


def norm_lit(t):
    # line terminators inside multi-line literals follow `newlines` (C08); everything else is byte-exact.
    # `operator "" _x` and `operator ""_x` are the same literal-operator-id ([over.literal]): the suffix is not part of a literal
    if t.startswith('""_'):
        t = '""'
    return t.replace('\r\n', '\n').replace('\r', '\n')


def judge(case):
    e = tokrel.execute(case.src, case.lang, case.cfg)
    if e.timeout:
        return {'inconclusive': True}, []
    if not e.accepted:
        return {'counts': ['refused'], 'classes': ['refused:' + case.lang]}, []
    fails = []
    counts = []
    if e.tok_out is not None:
        d = _seqdiff(tokrel.comments_tok0(e.tok_in), tokrel.comments_tok0(e.tok_out), 'comment')
        if d:
            fails.append(('tok0-comments', d))
        d = _seqdiff([norm_lit(x) for x in tokrel.literals_tok0(e.tok_in)], [norm_lit(x) for x in tokrel.literals_tok0(e.tok_out)], 'literal')
        if d:
            fails.append(('tok0-literals', d))
    interesting = False
    for c in e.tok_in:
        if tokrel.is_cmt(c.type) and ('\n' in c.text or c.text.rstrip().endswith('\\')):
            interesting = True
        elif c.type in tokrel.LIT_TYPES and ('\t' in c.text or '\n' in c.text or any(ord(ch) > 127 for ch in c.text)):
            interesting = True
    if case.lang in corpus.CFAMILY:
        lin = tokrel.lex_or_none(case.src, case.lang)
        lout = tokrel.lex_or_none(e.out, case.lang) if lin is not None else None
        if lin is None:
            counts.append('unlexable')
        elif lout is None:
            fails.append(('clex-comments', {'class': 'unlexable-output', 'at': [], 'got': [], 'index': 0, 'in': [], 'out': []}))
        else:
            counts.append('clex_judged')
            def views(li, lo):
                lits = lambda l: [norm_lit(t[1]) for t in l if t[0] in ('str', 'chr', 'hdr')]       # noqa: E731
                return (_seqdiff(clex.comment_stream(li), clex.comment_stream(lo), 'comment'), _seqdiff(lits(li), lits(lo), 'literal'))
            dc, dl = views(lin, lout)
            if (dc or dl) and (b'\\ ' in case.src or b'\\\t' in case.src):
                # backslash + blanks + newline is a splice for gcc/clang and not for ISO C: fail only under both conventions
                g1, g2 = tokrel.lex_or_none(case.src, case.lang, True), tokrel.lex_or_none(e.out, case.lang, True)
                if g1 is not None and g2 is not None:
                    gc, gl = views(g1, g2)
                    dc = dc if gc else None
                    dl = dl if gl else None
                    counts.append('splice_convention_consulted')
            if dc:
                fails.append(('clex-comments', dc))
            if dl:
                fails.append(('clex-literals', dl))
    ncm = sum(1 for c in e.tok_in if tokrel.is_cmt(c.type))
    nlit = sum(1 for c in e.tok_in if c.type in tokrel.LIT_TYPES)
    info = {'nontrivial': interesting and e.out != case.src, 'counts': counts,
            'classes': ['lang:' + case.lang, 'origin:' + (case.origin or {}).get('kind', '?'), 'interesting' if interesting else 'plain'],
            'sample': {'origin': case.origin, 'lang': case.lang, 'cfg': case.cfgd, 'comments': ncm, 'literals': nlit,
                       'input_head': core.preview(case.src, 200)}}
    return info, fails


replay = family.replay_case(judge)
_EX = {}


def make_strategy():
    from hypothesis import strategies as st
    return st.tuples(gen_c.c_program(max_depth=3, max_funcs=2), st.integers(0, 2 ** 32 - 1), st.integers(0, 2 ** 32 - 1))


def to_case(v):
    toks, lseed, cseed = v
    cseed = family.cfg_seed(cseed)
    rng = random.Random(lseed)
    style = dict(p_cmt=rng.choice([0.15, 0.4, 0.8]), bs_cmt=0.25, p_nl_slot=0.2)
    src, r = layout.render(toks, rng, 'C', style)
    if lseed % 7 == 0:
        src = src.rstrip('\n') + ' // c-eof no newline'
    crng = random.Random(cseed)
    k = cseed % 5
    cfgd = {} if k == 0 else family.apply_exclusions(registry.random_cfg(crng, CLASSES, (0.01, 0.03, 0.08, 0.2)[k - 1]), _EX)
    return family.Case(src.encode('utf-8'), 'C', cfgd, {'kind': 'generated', 'layout_seed': lseed, 'cfg_seed': cseed})


# ------------------------------------------------------------------------------------------------ literal carriers
PIECES = ['a', 'b c', '  ', ' \t', '\t', '\n', '\n\n', ' \n', '\t\n', '//', '/*', '*/', '"', "'", '\\', '\\n', '\\"', ')', '(', ')"', 'é', '中', '#', '{', '}',
          ';', '%d', 'x  y', '\\\\', 'R"(', ')x"', ')a"', ')xy"', ')_', '@', '$', '`', '\U0001F600', '\U0001D49C', '\U0010FFFD', '\u00df']


def content(rng, forbid=(), n=None):
    s = ''.join(rng.choice(PIECES) for _ in range(n or rng.randint(1, 8)))
    for f in forbid:
        s = s.replace(f, '_')
    return s


def carrier(rng):
    """(lang, source text) with generated literal contents in a fixed, valid frame"""
    k = rng.randrange(9)
    if k == 5:       # Java text blocks are not tokenized as literals (known finding C03-K1, kept as a regress replay only)
        k = 3
    ind = rng.choice(['', '  ', '\t', '      '])
    if k == 0:      # C++ raw string, delimiter of 0..3 chars
        delim = rng.choice(['', 'x', 'ab', 'xyz', '_'])
        c = content(rng, forbid=(')' + delim + '"',))
        if len(delim) >= 2 and rng.random() < 0.5:       # a near-miss of the closing delimiter inside the literal
            c += ')' + delim[0] + 'q' * (len(delim) - 1) + '"  +   "tail'
        if delim == '':
            c = c.replace(')"', ') "')
        pre = rng.choice(['', '', 'L', 'u8', 'u', 'U'])       # every encoding prefix a raw string can carry
        return 'CPP', 'void f()\n{\n%sauto s = %sR"%s(%s)%s";\n%sint after = 1;\n}\n' % (ind, pre, delim, c, delim, ind)
    if k == 1:      # two raw strings and a prefix
        c1 = content(rng, forbid=(')q"',))
        c2 = content(rng, forbid=(')q"',))
        return 'CPP', 'static const char *a[] = {\n%sR"q(%s)q",\n%su8R"q(%s)q" };\n' % (ind, c1, ind, c2)
    if k == 2:      # C string continued with backslash-newline
        c = content(rng, forbid=('"', '\n', '\\', "'", '`', '$', '@'))
        c2 = content(rng, forbid=('"', '\n', '\\', "'", '`', '$', '@'))
        return 'C', 'const char *s = "%s\\\n%s";\nint   after;\n' % (c, c2)
    if k == 3:      # ordinary string / char with tabs and comment openers
        c = content(rng, forbid=('"', '\n', '\\', '`', '$', '@'))
        lang = rng.choice(['C', 'CPP', 'OC', 'JAVA', 'CS', 'D', 'VALA'])
        pre, cpre = (rng.choice(['', '', 'L', 'u8', 'u', 'U']), rng.choice(['', '', 'L', 'u', 'U'])) if lang in ('C', 'CPP') else ('', '')
        return lang, 'int f(void) {\n%sg(%s"%s"  ,%s\'%s\');\n}\n' % (ind, pre, c, cpre, rng.choice(['\t', '/', '*', 'x', '\\t', '\\\'']))
    if k == 4:      # C# verbatim string
        c = content(rng, forbid=('"', '`', '$', '@'))
        return 'CS', 'class A {\n%sstring s = @"%s";\n%sint after = 1;\n}\n' % (ind, c, ind)
    if k == 5:      # Java text block
        c = content(rng, forbid=('"""', '\\', '`', '$', '@', '"'))
        return 'JAVA', 'class A {\n%sString s = """\n%s""";\n%sint after = 1;\n}\n' % (ind, c, ind)
    if k == 6:      # ObjC string
        c = content(rng, forbid=('"', '\n', '\\', '`', '$', '@'))
        return 'OC', 'void f(void) {\n%sNSString *s = @"%s";\n}\n' % (ind, c)
    if k == 7:      # Vala verbatim
        c = content(rng, forbid=('"""', '`', '$', '@', '"', '\\'))
        return 'VALA', 'void f() {\n%sstring s = """%s""";\n%sint after = 1;\n}\n' % (ind, c, ind)
    c = content(rng, forbid=('`', '$', '@'))     # D wysiwyg
    return 'D', 'void f() {\n%sauto s = `%s`;\n%sint after = 1;\n}\n' % (ind, c, ind)


def make_strategy_cpp():
    from hypothesis import strategies as st
    return st.tuples(gen_cpp.cpp_program(max_snippets=4), st.integers(0, 2 ** 32 - 1), st.integers(0, 2 ** 32 - 1))


def to_case_cpp(v):
    toks, lseed, cseed = v
    cseed = family.cfg_seed(cseed)
    rng = random.Random(lseed)
    src, r = layout.render(toks, rng, 'CPP', dict(p_cmt=rng.choice([0.15, 0.4, 0.8]), bs_cmt=0.2, p_nl_slot=0.2))
    crng = random.Random(cseed)
    k = cseed % 5
    cfgd = {} if k == 0 else family.apply_exclusions(registry.random_cfg(crng, CLASSES, (0.01, 0.03, 0.08, 0.2)[k - 1]), _EX)
    if k in (1, 2):      # the position options move tokens across line breaks (and across // comments if a guard is missing)
        for o in crng.sample(POS_OPTS, 3):
            cfgd[o] = crng.choice(['lead', 'trail', 'lead_break', 'trail_break', 'lead_force', 'trail_force', 'join'])
    return family.Case(src.encode('utf-8'), 'CPP', cfgd, {'kind': 'generated-cpp', 'layout_seed': lseed, 'cfg_seed': cseed})


POS_OPTS = ['pos_arith', 'pos_assign', 'pos_bool', 'pos_compare', 'pos_conditional', 'pos_comma', 'pos_enum_comma', 'pos_class_comma',
            'pos_constr_comma', 'pos_class_colon', 'pos_constr_colon', 'pos_shift']


def main(ctx):
    quick = ctx.tier == 'quick'
    ex = family.exclusions(ctx)
    _EX.update(ex)
    family.set_tier(ctx)
    ctx.rule = ('case = (source, language, whitespace-class config), judged when uncrustify exits 0; non-trivial = the input has a '
                'multi-line comment, a backslash-ended // comment or a literal containing tab / newline / non-ASCII, and the output '
                'differs from the input; distinct by sha256(source, language, config)')
    ctx.assumptions = ['comment normalisation = exactly the continuation-line layout the statement allows (vf/clex.norm_comment)',
                       'line terminators inside multi-line literals may follow the newlines option (C08); all other bytes are exact']
    core.replay_regress(ctx, replay)
    files = corpus.files()
    cases = []
    cfgs = [{}] + family.random_cfgs(core.subseed(ctx.useed, 'a'), 2 if quick else 24, CLASSES, (0.01, 0.03, 0.08), ex, ctx.counts)
    for rel, lang in files:
        src = corpus.read(rel)
        for i, cd in enumerate(cfgs):
            cases.append(family.Case(src, lang, cd, {'kind': 'corpus', 'file': rel, 'cfg_index': i}))
    ccfgs = [{}] + family.random_cfgs(core.subseed(ctx.useed, 'c'), 12 if quick else 60, CLASSES, (0.02, 0.06, 0.15), ex, ctx.counts) + \
        [{'indent_with_tabs': '0'}, {'indent_with_tabs': '2', 'align_with_tabs': 'true'}, {'indent_columns': '3', 'output_tab_size': '5'}]
    for i in range(1500 if quick else 40000):
        r = random.Random(core.subseed(ctx.useed, 'carrier', i))
        lang, text = carrier(r)
        cases.append(family.Case(text.encode('utf-8'), lang, r.choice(ccfgs), {'kind': 'carrier', 'i': i}))
    raw = family.explore(ctx, judge, cases)
    raw += family.hyp_explore(ctx, judge, make_strategy, to_case, shards=16, examples=(60 if quick else 3000))
    raw += family.hyp_explore(ctx, judge, make_strategy_cpp, to_case_cpp, shards=16, examples=(80 if quick else 3000))
    family.triage(ctx, judge, raw)
