"""C01  Formatting preserves program meaning (compile equivalence).

Domain   programs: Hypothesis-generated C programs (gcc -x c -std=gnu11), C++ translation units (g++ -std=gnu++17) and Java classes
         (javac -g:none; class files compared) and Objective-C root classes without Foundation (clang -x objective-c) rendered by the
         layout engine with comments in trivia slots, plus the corpus files that compile stand-alone (decided at run time; files
         using __LINE__ / __FILE__ / __COUNTER__ / assert are left out because their object code legitimately depends on layout).
         configurations: (i) every option of the classes whitespace / mod_ / cmt_ singly at every enumerated / boundary value
         (thorough: all ~3000 settings; quick: a seeded subset), (ii) random multi-option draws at three densities, (iii) the
         whole-family settings (all sp_ remove / force, all nl_ add / remove).  Excluded by the statement: debug_*, options that
         redefine the lexer, options that insert external files; encoding options are left to C08 / C09.
Oracle   differential (translation validation style): uncrustify exits 0 and `cc -w -O1 -S -o - -` of the output is byte-identical to
         that of the input (same file name <stdin>, no -g, so no line information is emitted).
"""
import functools
import hashlib
import os
import random
import re
import subprocess

from vf import core, corpus, family, gen_c, gen_cpp, gen_java, gen_objc, layout, registry, run

BUILDS = ('fast',)
LEVEL = 'translation_validation'
CLASSES = ('WS', 'MOD', 'CMT')
CC = {'C': ['gcc', '-x', 'c', '-std=gnu11'], 'CPP': ['g++', '-x', 'c++', '-std=gnu++17'],
      'OC': ['clang', '-x', 'objective-c', '-fblocks', '-fobjc-exceptions']}
LAYOUT_DEPENDENT = re.compile(rb'__LINE__|__FILE__|__COUNTER__|__DATE__|__TIME__|\bassert\b|__PRETTY_FUNCTION__|source_location')


@functools.lru_cache(maxsize=64)
def _compile_cached(h, lang, src):
    p = subprocess.run(CC[lang] + ['-w', '-O1', '-S', '-o', '-', '-'], input=src, capture_output=True, cwd='/tmp', timeout=120)
    return p.returncode, p.stdout, p.stderr[-400:]


@functools.lru_cache(maxsize=32)
def _javac_cached(h, src):
    # javac -g:none: no LineNumberTable / SourceFile attributes, so equal class files mean equal programs
    with run.TempDir() as d:
        run.write(os.path.join(d, 'A.java'), src)
        p = subprocess.run(['javac', '-g:none', '-nowarn', '-d', os.path.join(d, 'o'), os.path.join(d, 'A.java')], capture_output=True, timeout=300)
        out = []
        if p.returncode == 0:
            for r_, _ds, fs in os.walk(os.path.join(d, 'o')):
                for f in sorted(fs):
                    out.append(f.encode() + b'\0' + run.read(os.path.join(r_, f)))
        return p.returncode, b'\n'.join(sorted(out)), p.stderr[-400:]


def compile_(src, lang):
    if lang == 'JAVA':
        return _javac_cached(hashlib.sha256(src).hexdigest(), src)
    return _compile_cached(hashlib.sha256(src).hexdigest(), lang, src)


def judge(case):
    lang = case.lang
    rc0, asm0, err0 = compile_(case.src, lang)
    if rc0 != 0:
        return {'counts': ['input_does_not_compile'], 'classes': ['precondition-failed']}, []
    r, _ = run.fmt(case.src, lang, case.cfg, cpu=6)
    if r.timeout and r.cpu < 4:
        return {'inconclusive': True}, []
    fails = []
    mods = sorted(n for n in case.cfgd if n.startswith('mod_'))

    def fail(cls, detail, out=b''):
        # (part of the signature: does the - minimised - program hold a conditional group that ends between `do` / `else` and its block?)
        tag = gen_c.construct_tags(case.src)
        fails.append(('compile-equivalence', {'class': cls, 'at': [lang], 'got': [detail[:60]], 'index': 0, 'in': [core.preview(case.src, 300)],
                                              'out': [core.preview(out, 300), detail], 'first_in': lang + tag, 'first_out': detail[:120]}))
    changed = False
    if not r.ok:
        fail('uncrustify-refuses-valid-program', 'exit %s signal %s: %s' % (r.status, r.signal, r.err[-160:].decode('utf-8', 'replace')))
    else:
        changed = r.out != case.src
        if changed:
            rc1, asm1, err1 = compile_(r.out, lang)
            if rc1 != 0:
                m = re.search(rb'error: ([^\n]*)', err1)
                fail('output-does-not-compile', (m.group(1) if m else err1[-100:]).decode('utf-8', 'replace'), r.out)
            elif asm1 != asm0:
                a, b = asm0.split(b'\n'), asm1.split(b'\n')
                i = next((k for k in range(min(len(a), len(b))) if a[k] != b[k]), min(len(a), len(b)))
                fail('object-code-differs', 'asm line %d: %s | %s' % (i, a[i][:40].decode('latin-1') if i < len(a) else '', b[i][:40].decode('latin-1') if i < len(b) else ''), r.out)
    ntok = len(re.findall(rb'\w+|[^\s\w]', case.src))
    info = {'nontrivial': changed and ntok >= 30,
            'classes': ['lang:' + lang, 'origin:' + (case.origin or {}).get('kind', '?'), 'cfg:' + (case.origin or {}).get('cfgkind', '?')] + ['opt:' + m for m in mods[:6]],
            'sample': {'origin': case.origin, 'lang': lang, 'cfg': dict(list(case.cfgd.items())[:12]), 'tokens': ntok, 'input_head': core.preview(case.src, 160)}}
    return info, fails


replay = family.replay_case(judge)
_EX = {}
_SINGLES = []


def single_settings():
    """every (option, value) of the classes in the domain: enumerated values, numeric boundaries"""
    out = []
    for o in registry.load():
        if o['type'] == 'str' or registry.klass(o['name']) not in CLASSES:
            continue
        for v in registry.values(o):
            if v != o['default']:
                out.append((o['name'], v))
    return out


def draw_cfg(rng):
    k = rng.randrange(10)
    if k <= 3 and _SINGLES:
        n, v = rng.choice(_SINGLES)
        d = {n: v}
        kind = 'single'
    elif k <= 5:
        d = registry.random_cfg(rng, CLASSES, rng.choice([0.01, 0.03, 0.08]))
        kind = 'random'
    elif k == 6:
        d = {o['name']: rng.choice(['remove', 'force']) for o in registry.ws_options() if registry.is_iarf(o) and o['name'].startswith('sp_')}
        kind = 'all-sp'
    elif k == 7:
        d = {o['name']: registry.draw_value(rng, o) for o in registry.load() if o['name'].startswith('mod_') and o['type'] != 'str' and rng.random() < 0.35}
        d.update(registry.random_cfg(rng, ('WS',), 0.02))
        kind = 'mod-heavy'
    elif k == 8:
        d = {o['name']: rng.choice(['add', 'remove', 'force']) for o in registry.ws_options() if registry.is_iarf(o) and o['name'].startswith('nl_') and rng.random() < 0.5}
        d['code_width'] = str(rng.choice([0, 40, 60, 80]))
        kind = 'nl-heavy'
    else:
        d = {}
        kind = 'default'
    family.apply_exclusions(d, _EX)
    registry.fix_nl_max(d)
    return d, kind


def c_domain(cfgd, lang):
    # mod_infinite_loop = 2 | 3 rewrites to `while(true)`: for a C file that is the user's promise that `true` is declared
    if lang == 'C' and cfgd.get('mod_infinite_loop') in ('2', '3'):
        cfgd['mod_infinite_loop'] = {'2': '4', '3': '5'}[cfgd['mod_infinite_loop']]
    return cfgd


def make_strategy():
    from hypothesis import strategies as st
    return st.tuples(st.one_of(gen_c.c_program(max_depth=4, max_funcs=2, junk_brackets=False, pp_split=True).map(lambda t: ('C', t)),
                               gen_cpp.cpp_program(max_snippets=4, junk_brackets=False).map(lambda t: ('CPP', t))),
                     st.integers(0, 2 ** 32 - 1), st.integers(0, 2 ** 32 - 1))


def to_case(v):
    (lang, toks), lseed, cseed = v
    cseed = family.cfg_seed(cseed)
    rng = random.Random(lseed)
    src, r = layout.render(toks, rng, lang, dict(p_cmt=rng.choice([0.0, 0.08, 0.25]), bs_cmt=0.0, p_nl_slot=rng.choice([0.05, 0.25])))
    cfgd, kind = draw_cfg(random.Random(cseed))
    c_domain(cfgd, lang)
    return family.Case(src.encode('utf-8'), lang, cfgd, {'kind': 'generated', 'cfgkind': kind, 'layout_seed': lseed, 'cfg_seed': cseed})


def make_strategy_objc():
    from hypothesis import strategies as st
    return st.tuples(gen_objc.objc_program(max_snippets=3).map(lambda t: ('OC', t)), st.integers(0, 2 ** 32 - 1), st.integers(0, 2 ** 32 - 1))


def make_strategy_java():
    from hypothesis import strategies as st
    return st.tuples(gen_java.java_program(max_snippets=3).map(lambda t: ('JAVA', t)), st.integers(0, 2 ** 32 - 1), st.integers(0, 2 ** 32 - 1))


def compilable(item):
    rel, lang = item
    src = corpus.read(rel)
    if LAYOUT_DEPENDENT.search(src) or b'\x00' in src[:2000] or len(src) > 60000:
        return rel, lang, False
    try:
        rc, _a, _e = compile_(src, lang)
    except subprocess.TimeoutExpired:
        return rel, lang, False
    return rel, lang, rc == 0


def main(ctx):
    quick = ctx.tier == 'quick'
    rng = random.Random(core.subseed(ctx.useed, 'c01'))
    _EX.update(family.exclusions(ctx))
    family.set_tier(ctx)
    _SINGLES.extend(single_settings())
    ctx.rule = ('case = (compilable program, language, configuration); judged: uncrustify exit status and object code of output vs input; non-trivial = '
                'the output bytes differ from the input and the program has >= 30 tokens; distinct by sha256(source, language, config)')
    ctx.assumptions = ['gcc/g++ -w -O1 -S from stdin emits no line information, so equal assembly text means equal object code',
                       'generated programs avoid constructs whose meaning depends on layout (__LINE__, assert, multi-token stringification)',
                       'Java and Objective-C are compiled for generated programs only (corpus files of those languages need frameworks)']
    core.replay_regress(ctx, replay)
    # compilable corpus subset
    cand = [f for f in corpus.files() if f[1] in ('C', 'CPP')]
    comp = [(rel, lang) for rel, lang, ok in core.pmap(compilable, cand, chunksize=8) if ok]
    comp.sort()
    ctx.extra['compilable_corpus_files'] = len(comp)
    cases = []
    ncfg = 3 if quick else 40
    for rel, lang in comp:
        src = corpus.read(rel)
        for i in range(ncfg):
            cfgd, kind = draw_cfg(random.Random(core.subseed(ctx.useed, 'corpus', rel, i))) if i else ({}, 'default')
            cases.append(family.Case(src, lang, c_domain(cfgd, lang), {'kind': 'corpus', 'file': rel, 'cfgkind': kind}))
    # single-option sweep over the compilable corpus (each setting on a few files)
    singles = list(_SINGLES)
    if quick:
        singles = rng.sample(singles, 200)
    ctx.extra['single_settings_total'] = len(_SINGLES)
    ctx.extra['single_settings_this_run'] = len(singles)
    for n, v in singles:
        for rel, lang in rng.sample(comp, 1 if quick else 6):
            cases.append(family.Case(corpus.read(rel), lang, c_domain({n: v}, lang), {'kind': 'corpus', 'file': rel, 'cfgkind': 'single-sweep'}))
    # full single-option sweep on fixed generated programs: every setting of every option of the domain, once on a rich C program
    # (every statement kind, macros, conditional groups) and every third one on a C++ translation unit made of all snippets
    fixed_c = layout.render(gen_c.fixed_program(7, junk_brackets=False, pp_split=True), random.Random(7), 'C', dict(p_cmt=0.05, bs_cmt=0.0))[0].encode()
    cpp_toks = []
    for i in range(len(gen_cpp.SNIPPETS)):
        cpp_toks += gen_cpp.tokens_of(gen_cpp.SNIPPETS[i], '%d' % i, False)
    fixed_cpp = layout.render(cpp_toks, random.Random(8), 'CPP', dict(p_cmt=0.05, bs_cmt=0.0))[0].encode()
    for j, (n, v) in enumerate(_SINGLES):
        cases.append(family.Case(fixed_c, 'C', c_domain({n: v}, 'C'), {'kind': 'fixed-program', 'file': 'fixed:c', 'cfgkind': 'single-sweep-all'}))
        if j % 3 == 0 or not quick:
            cases.append(family.Case(fixed_cpp, 'CPP', {n: v}, {'kind': 'fixed-program', 'file': 'fixed:cpp', 'cfgkind': 'single-sweep-all'}))
    # the token-changing (mod_) settings, each once on a fixed Java and a fixed Objective-C program made of all snippets
    # (thorough: every setting of the domain)
    java_toks = [('stmt', 0, 'top')] + gen_java.tokens_of(gen_java.HEADER) + [('stmt', 0, 'top'), ('id', 'class'), ('id', 'A'), ('punct', '{')]
    for i in range(len(gen_java.SNIPPETS)):
        java_toks += gen_java.tokens_of(gen_java.snippet_text(i, '%d' % i))
    java_toks += [('stmt', 0, 'close'), ('punct', '}')]
    fixed_java = layout.render(java_toks, random.Random(9), 'JAVA', dict(p_cmt=0.05, bs_cmt=0.0))[0].encode()
    oc_toks = []
    for i in range(len(gen_objc.SNIPPETS)):
        oc_toks += gen_objc.tokens_of(gen_objc.SNIPPETS[i].replace('@@', '%d' % i))
    fixed_oc = layout.render(oc_toks, random.Random(10), 'OC', dict(p_cmt=0.05, bs_cmt=0.0))[0].encode()
    nj = 0
    for n, v in _SINGLES:
        if quick and not n.startswith('mod_'):
            continue
        nj += 1
        cases.append(family.Case(fixed_java, 'JAVA', {n: v}, {'kind': 'fixed-program', 'file': 'fixed:java', 'cfgkind': 'single-sweep-mod' if quick else 'single-sweep-all'}))
        cases.append(family.Case(fixed_oc, 'OC', {n: v}, {'kind': 'fixed-program', 'file': 'fixed:objc', 'cfgkind': 'single-sweep-mod' if quick else 'single-sweep-all'}))
    ctx.extra['fixed_java_objc_settings'] = nj
    # enumerated brace shapes (dangling-else family) x brace options
    bcfgs = [{'mod_full_brace_if': 'remove', 'mod_full_brace_for': 'remove', 'mod_full_brace_while': 'remove', 'mod_full_brace_do': 'remove'},
             {'mod_full_brace_if': 'add', 'mod_full_brace_for': 'add', 'mod_full_brace_while': 'add'},
             {'mod_full_brace_if': 'remove'}, {'mod_full_brace_for': 'remove'}, {'mod_full_brace_while': 'remove'},
             {'mod_full_brace_if_chain': '1'}, {'mod_full_brace_if_chain': '2'}, {'mod_full_brace_if_chain': '3'},
             {'mod_full_brace_if': 'remove', 'nl_after_semicolon': 'true', 'mod_full_brace_nl': '2'}]
    nshape = 0
    import itertools
    for name, src in itertools.chain(gen_c.brace_shapes(2 if quick else 3), gen_c.brace_shapes_cmt(2)):
        nshape += 1
        for bc in bcfgs:
            cases.append(family.Case(src.encode(), 'C', bc, {'kind': 'brace-shape', 'file': 'shape:' + name, 'cfgkind': 'brace-options'}))
    ctx.extra['brace_shapes'] = nshape
    # enumerated boolean-expression shapes x the options that insert / remove parentheses
    pcfgs = [{'mod_full_paren_if_bool': 'true'}, {'mod_full_paren_assign_bool': 'true'}, {'mod_full_paren_return_bool': 'true'},
             {'mod_full_paren_if_bool': 'true', 'mod_full_paren_assign_bool': 'true', 'mod_full_paren_return_bool': 'true'},
             {'mod_paren_on_return': 'add'}, {'mod_paren_on_return': 'remove'},
             {'mod_full_paren_return_bool': 'true', 'mod_paren_on_return': 'remove'},
             {'mod_full_paren_if_bool': 'true', 'sp_inside_paren': 'remove', 'sp_paren_paren': 'remove', 'sp_bool': 'remove', 'sp_compare': 'remove'}]
    npar = 0
    for name, src in gen_c.paren_shapes():
        npar += 1
        for pc_ in pcfgs:
            cases.append(family.Case(src.encode(), 'C', dict(pc_), {'kind': 'paren-shape', 'file': 'shape:' + name, 'cfgkind': 'paren-options'}))
    ctx.extra['paren_shape_programs'] = npar
    cases.sort(key=lambda c: (c.origin.get('file', ''), ))
    raw = family.explore(ctx, judge, cases, batch=8)
    raw += family.hyp_explore(ctx, judge, make_strategy, to_case, shards=16, examples=(250 if quick else 6000))
    raw += family.hyp_explore(ctx, judge, make_strategy_java, to_case, shards=16, examples=(6 if quick else 150))
    raw += family.hyp_explore(ctx, judge, make_strategy_objc, to_case, shards=16, examples=(30 if quick else 1500))
    family.triage(ctx, judge, raw, minimise_src=3000, per_cluster=1)
    ctx.extra['programs'] = ctx.evaluations
    ctx.extra['disagreements_checked'] = ctx.counts.get('raw_failures', 0)
    pre = ctx.counts.get('input_does_not_compile', 0)
    if pre > 0.02 * max(1, ctx.evaluations):
        ctx.infra_errors.append('generator health: %d inputs did not compile' % pre)
