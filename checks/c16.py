"""C16  Bad configuration lines are diagnosed and have no other effect.

Domain   per option: below min / above max / far out of range / overflow / wrong type / word of another enum /
         dangling and incompatible references (exhaustive over options x defect classes); unknown names near real ones;
         malformed syntax (quotes, long lines, NUL / non-ASCII bytes, include of self / cycle / missing, `using` forms,
         directives with too few arguments); nl_max conflicts; random and mutated config text.
Oracle   on the ASan+UBSan binary: no signal / sanitizer report / hang; for a bad line L inserted at line i of a good
         config G: stderr names <file>:<i> and the option; D(G+L) == D(G); probes format identically under G+L and G;
         nl_max conflicts exit EX_CONFIG without producing output.
"""
import os
import random

from vf import cfgdump, core, corpus, registry, run

BUILDS = ('fast', 'san')
LEVEL = 'exploration'
OK_STATUS = set([0, 1]) | set(range(64, 79))
EX_CONFIG = 78


def sane(r):
    """the C06 validity predicate for one process result; returns reason or None"""
    if r.timeout:
        return 'timeout' if r.cpu >= run.CPU_LIMIT * 0.9 else None
    if r.signal is not None:
        if r.signal in (9, 24) and r.cpu >= run.CPU_LIMIT * 0.9:
            return 'cpu-limit'
        return 'signal %d' % r.signal
    if r.status in (98, 99):
        return 'sanitizer'
    if r.status not in OK_STATUS:
        return 'status %s' % r.status
    if b'ERROR: AddressSanitizer' in r.err or b'runtime error:' in r.err:
        return 'sanitizer'
    return None


def dump(d, cfgname, extra=(), kind='san'):
    return run.run(['-c', os.path.join(d, cfgname)] + list(extra) + ['--update-config'], cwd=d, kind=kind)


def good_config(rng, n=6):
    reg = [o for o in registry.load() if o['type'] != 'str' and registry.klass(o['name']) in ('WS', 'MOD', 'CMT')]
    d = {}
    for o in rng.sample(reg, n):
        d[o['name']] = registry.draw_value(rng, o)
    d.pop('nl_max', None)
    return d


def bad_values(o, reg, rng):
    """list of (defect class, value text) that must be rejected for option o"""
    out = []
    t = o['type']
    if t == 'num':
        lo, hi = o['min'], o['max']
        if lo is not None:
            out.append(('below_min', str(lo - 1)))
        elif o['default'].lstrip('-').isdigit() and lo is None and hi is not None and hi > 0:
            pass
        if hi is not None:
            out.append(('above_max', str(hi + 1)))
            out.append(('far_above', str(hi + 1000003)))
        out.append(('overflow', '99999999999999999999999'))
        out.append(('word', 'banana'))
        out.append(('float', '1.5'))
        out.append(('trailing_junk', '3x'))
        other = rng.choice([p for p in reg if p['type'] in ('enum', 'bool')])
        out.append(('incompatible_ref', other['name']))
        # a reference (plain or negated) whose value is valid for the referenced option but not for this one
        nums = [p for p in reg if p['type'] == 'num' and p['name'] != o['name']]

        def accepts(p, v):
            plo = p['min'] if p['min'] is not None else (0 if not p['default'].startswith('-') else -(1 << 30))
            phi = p['max'] if p['max'] is not None else (1 << 30)
            return plo <= v <= phi
        if hi is not None:
            cand = [p for p in nums if accepts(p, hi + 1)]
            if cand:
                out.append(('ref_above_max', rng.choice(cand)['name'], '', hi + 1))
            if hi + 1 <= 64:
                cand = [p for p in nums if accepts(p, -(hi + 1))]
                if cand:
                    out.append(('negref_above_max', rng.choice(cand)['name'], '-', -(hi + 1)))
        if lo is not None:
            cand = [p for p in nums if accepts(p, -lo + 1)]
            if cand:
                out.append(('negref_below_min', rng.choice(cand)['name'], '-', -lo + 1))
            cand = [p for p in nums if accepts(p, lo - 1)]
            if cand:
                out.append(('ref_below_min', rng.choice(cand)['name'], '', lo - 1))
    elif t in ('enum', 'bool'):
        out.append(('word', 'banana'))
        out.append(('number', '7'))
        if t == 'enum':
            foreign = {'ignore', 'add', 'remove', 'force', 'lead_break', 'trail_force', 'crlf', 'auto', 'join'} - set(o['choices'])
            cand = sorted(foreign - {'i', 'a', 'r', 'f'})
            out.append(('other_enum_word', rng.choice(cand)))
        else:
            out.append(('other_enum_word', 'force'))
        other = rng.choice([p for p in reg if p['type'] != t and p['type'] != 'str' or (p['type'] == 'enum' and p['choices'] != o['choices'])])
        out.append(('incompatible_ref', other['name']))
    out.append(('dangling_ref', 'no_such_option_q'))
    if t != 'str':
        out.append(('empty_quoted', '""'))        # an empty string is not a number / a word of the enumeration
        out.append(('lone_prefix', '-'))
    return out


def do_badline(case):
    """case = (seed, option name, defect class, value)"""
    seed, name, dclass, value = case[:4]
    prelude = case[4] if len(case) > 4 else ''
    rng = random.Random(seed)
    g = good_config(rng)
    g.pop(name, None)
    lines = ['%s = %s' % kv for kv in g.items()]
    i = rng.randint(0, len(lines))
    if prelude:
        g.pop(prelude.split()[0], None)
        lines = [prelude] + ['%s = %s' % kv for kv in g.items()]
        i = rng.randint(1, len(lines))
    bad = '%s = %s' % (name, value)
    with_l = lines[:i] + [bad] + lines[i:]
    fails = []
    sig = {'kind': 'badline', 'dclass': dclass, 'otype': registry.by_name().get(name, {}).get('type', 'unknown')}
    with run.TempDir() as d:
        run.write(os.path.join(d, 'g.cfg'), '\n'.join(lines) + '\n')
        run.write(os.path.join(d, 'b.cfg'), '\n'.join(with_l) + '\n')
        rg = dump(d, 'g.cfg')
        rb = dump(d, 'b.cfg')
        why = sane(rb)
        if why:
            fails.append((dict(sig, relation='crash', why=why), {'res': rb.brief()}))
        elif sane(rg) is None and rg.status == 0:
            if rb.status != 0 or rb.out != rg.out:
                dv = cfgdump.plain(cfgdump.parse(rg.out)[0])
                bv = cfgdump.plain(cfgdump.parse(rb.out)[0])
                diff = [(k, dv.get(k), bv.get(k)) for k in dv if dv.get(k) != bv.get(k)]
                fails.append((dict(sig, relation='effect'), {'status': rb.status, 'value_diff(name,without,with)': diff[:5],
                                                             'stderr': core.preview(rb.err)}))
            err = rb.err.decode('utf-8', 'replace')
            where = 'b.cfg:%d' % (i + 1)
            hits = [l for l in err.splitlines() if where in l]
            if not hits:
                fails.append((dict(sig, relation='diagnostic-missing'), {'want': where, 'stderr': core.preview(err)}))
            elif not any(name.lower() in l.lower() for l in hits):
                fails.append((dict(sig, relation='diagnostic-no-option-name'), {'want': name, 'stderr': core.preview(err)}))
            # no diagnostic may blame another line of this config
            others = [l for l in err.splitlines() if 'b.cfg:' in l and where not in l]
            if others:
                fails.append((dict(sig, relation='diagnostic-wrong-line'), {'want': where, 'stderr': core.preview(err)}))
            # behaviour
            if seed % 5 == 0:
                for rel, lang, src in probes():
                    a = run.run(['-c', os.path.join(d, 'g.cfg'), '-l', lang, '-q'], stdin=src, cwd=d)
                    b = run.run(['-c', os.path.join(d, 'b.cfg'), '-l', lang, '-q'], stdin=src, cwd=d)
                    if (a.status, a.out) != (b.status, b.out) and not (a.timeout or b.timeout):
                        fails.append((dict(sig, relation='behaviour'), {'probe': rel, 'a': a.brief(), 'b': b.brief()}))
                        break
    return [(s, dict(r, case=list(case), kind='badline', cfg='\n'.join(with_l))) for s, r in fails]


_PROBES = None


def probes():
    global _PROBES
    if _PROBES is None:
        have = dict(corpus.files())
        _PROBES = [(rel, have[rel], corpus.read(rel)) for rel in ('c/bugs-1.c', 'cpp/templates.cpp') if rel in have]
    return _PROBES


# ------------------------------------------------------------------------------------------------ syntax cases
def syntax_cases():
    """(label, text of the bad part, files {name: content}, expectation)
    expectation: 'noeffect' -> D == D(G) and status 0 ; 'refuse_or_noeffect' -> either documented error status with a
    diagnostic, or no effect ; 'sane' -> only the crash predicate"""
    long_name = 'x' * 10000
    c = [
        ('unterminated_dquote', 'cmt_insert_file_header = "abc\n', {}, 'noeffect'),
        ('unterminated_squote', "cmt_insert_file_header = 'abc\n", {}, 'noeffect'),
        ('unterminated_backtick', 'type `abc\n', {}, 'noeffect'),
        ('text_after_quoted', 'cmt_insert_file_header = "abc"def\n', {}, 'noeffect'),
        ('quote_then_backslash_eol', 'cmt_insert_file_header = "abc\\\n', {}, 'noeffect'),
        ('name_only', 'indent_columns\n', {}, 'noeffect'),
        ('name_equals_nothing', 'indent_columns =\n', {}, 'noeffect'),
        ('only_separators', ' = , = \n', {}, 'noeffect'),
        ('long_unknown_name', long_name + ' = 1\n', {}, 'noeffect'),
        ('long_value', 'indent_columns = ' + '9' * 10000 + '\n', {}, 'noeffect'),
        ('long_word_value', 'sp_arith = ' + 'z' * 10000 + '\n', {}, 'noeffect'),
        ('long_comment', '# ' + 'c' * 20000 + '\n', {}, 'noeffect'),
        ('nul_byte', 'indent_columns = 3\x00 4\n', {}, 'sane'),
        ('nul_in_name', 'inde\x00nt = 3\n', {}, 'refuse_or_noeffect'),
        ('non_ascii_name', 'indént = 3\n', {}, 'refuse_or_noeffect'),
        ('non_ascii_in_comment', '# café\n', {}, 'noeffect'),
        ('latin1_byte', b'sp_arith = \xe9\n', {}, 'refuse_or_noeffect'),
        ('cr_only_line_ends', 'zzz = 1\rindent_columns = 5\r', {}, 'sane'),
        ('set_too_few', 'set FUNC_CALL\n', {}, 'noeffect'),
        ('set_unknown_type', 'set NO_SUCH_TOKEN_TYPE foo\n', {}, 'noeffect'),
        ('type_no_arg', 'type\n', {}, 'noeffect'),
        ('macro_open_no_arg', 'macro-open\n', {}, 'noeffect'),
        ('macro_close_no_arg', 'macro-close\n', {}, 'noeffect'),
        ('macro_else_no_arg', 'macro-else\n', {}, 'noeffect'),
        ('file_ext_too_few', 'file_ext CPP\n', {}, 'noeffect'),
        ('file_ext_bad_lang', 'file_ext KLINGON .kl\n', {}, 'noeffect'),
        ('include_no_arg', 'include\n', {}, 'noeffect'),
        ('include_empty', 'include ""\n', {}, 'noeffect'),
        ('include_missing', 'include "missing_file.cfg"\n', {}, 'refuse_or_noeffect'),
        ('include_self', 'include "b.cfg"\n', {}, 'refuse_or_noeffect'),
        ('include_cycle', 'include "inc1.cfg"\n', {'inc1.cfg': 'include "inc2.cfg"\n', 'inc2.cfg': 'include "inc1.cfg"\n'},
         'refuse_or_noeffect'),
        ('include_bad_inside', 'include "inc3.cfg"\n', {'inc3.cfg': '# c\nsp_arith = banana\n'}, 'noeffect'),
        ('using_no_arg', 'using\n', {}, 'noeffect'),
        ('using_words', 'using a.b\n', {}, 'noeffect'),
        ('using_one_part', 'using 5\n', {}, 'noeffect'),
        ('using_four_parts', 'using 0.1.2.3\n', {}, 'noeffect'),
        ('using_empty_part', 'using 0..1\n', {}, 'sane'),
        ('using_trailing_dot', 'using 0.\n', {}, 'sane'),
        ('using_huge', 'using 99999999999.1\n', {}, 'sane'),
        ('using_negative', 'using -1.-1\n', {}, 'sane'),
        ('using_junk_suffix', 'using 0x.7y\n', {}, 'sane'),
    ]
    return c


def do_syntax(case):
    seed, label = case
    tab = {c[0]: c for c in syntax_cases()}
    _, text, files, expect = tab[label]
    rng = random.Random(seed)
    g = good_config(rng)
    lines = ['%s = %s\n' % kv for kv in g.items()]
    i = rng.randint(0, len(lines))
    fails = []
    sig = {'kind': 'syntax', 'label': label}
    with run.TempDir() as d:
        run.write(os.path.join(d, 'g.cfg'), ''.join(lines))
        tb = text if isinstance(text, bytes) else text.encode('utf-8')
        run.write(os.path.join(d, 'b.cfg'), ''.join(lines[:i]).encode() + tb + ''.join(lines[i:]).encode())
        for n, content in files.items():
            run.write(os.path.join(d, n), content)
        rg = dump(d, 'g.cfg')
        rb = dump(d, 'b.cfg')
        why = sane(rb)
        if why:
            fails.append((dict(sig, relation='crash', why=why), {'res': rb.brief()}))
        elif expect != 'sane' and rg.status == 0:
            same = rb.status == 0 and rb.out == rg.out
            refused = rb.status != 0 and rb.err.strip() != b''
            if expect == 'noeffect' and not same:
                fails.append((dict(sig, relation='effect'), {'status': rb.status, 'stderr': core.preview(rb.err)}))
            if expect == 'refuse_or_noeffect' and not (same or refused):
                fails.append((dict(sig, relation='effect'), {'status': rb.status, 'stderr': core.preview(rb.err)}))
            if label == 'include_bad_inside' and rb.status == 0:
                err = rb.err.decode('utf-8', 'replace')
                if 'inc3.cfg:2' not in err or 'sp_arith' not in err:
                    fails.append((dict(sig, relation='diagnostic-missing'), {'want': 'inc3.cfg:2 sp_arith', 'stderr': core.preview(err)}))
            # a bad line *after* an include must still be reported with the parent's line number
            if label == 'include_bad_inside':
                run.write(os.path.join(d, 'b2.cfg'), 'include "inc3.cfg"\n# x\nindent_with_tabs = 9\n')
                r2 = dump(d, 'b2.cfg')
                err = r2.err.decode('utf-8', 'replace')
                if sane(r2) is None and not any('b2.cfg:3' in l and 'indent_with_tabs' in l for l in err.splitlines()):
                    fails.append((dict(sig, relation='diagnostic-wrong-line'), {'want': 'b2.cfg:3 indent_with_tabs', 'stderr': core.preview(err)}))
    return [(s, dict(r, case=list(case), kind='syntax', text=core.preview(text, 200))) for s, r in fails]


# ------------------------------------------------------------------------------------------------ nl_max conflicts
def guarded_options():
    """(name, expected) for the numeric blank-line options.  expected = the option *requests* a number of line breaks
    (documentation does not call it a maximum or a mode), so a value above nl_max is a conflict that must be refused.
    Derived from the binary's own option documentation, not from the list in the source."""
    out = []
    for o in registry.load():
        if o['type'] != 'num' or o['name'] == 'nl_max' or not o['name'].startswith('nl_'):
            continue
        if o['max'] is not None and o['max'] < 3:
            continue
        desc = o['desc'].lower()
        blank_line_group = o['cat'] == 4 or o['name'] in ('nl_start_of_file_min', 'nl_end_of_file_min')
        expected = blank_line_group and 'maximum' not in desc and 'aggressively' not in desc
        out.append((o['name'], expected))
    return out


def do_nlmax(case):
    name, n, expected = case
    cfg = 'nl_max = %d\n%s = %d\n' % (n, name, n + 1)
    okcfg = 'nl_max = %d\n%s = %d\n' % (n, name, n)
    src = b'int a;\n\n\n\n\nint f(void)\n{\n   return 1;\n}\n\n\n\n\nint b;\n'
    fails = []
    sig = {'kind': 'nlmax'}
    with run.TempDir() as d:
        run.write(os.path.join(d, 'c.cfg'), cfg)
        run.write(os.path.join(d, 'ok.cfg'), okcfg)
        run.write(os.path.join(d, 's.c'), src)
        r = run.run(['-c', 'c.cfg', '-f', 's.c', '-o', 'out.c'], cwd=d, kind='san')
        rok = run.run(['-c', 'ok.cfg', '-f', 's.c', '-o', 'out_ok.c'], cwd=d, kind='san')
        why = sane(r)
        if why:
            fails.append((dict(sig, relation='crash', why=why), {'res': r.brief()}))
            return [(s, dict(x, case=list(case), kind='nlmax', cfg=cfg)) for s, x in fails]
        guarded = None
        if r.status == EX_CONFIG:
            guarded = True
            if os.path.exists(os.path.join(d, 'out.c')):
                fails.append((dict(sig, relation='output-despite-refusal'), {'res': r.brief()}))
            if b'Parsing:' in r.err or b'int f' in r.out:
                fails.append((dict(sig, relation='source-read-despite-refusal'), {'res': r.brief(), 'stdout': core.preview(r.out)}))
            if name.encode() not in r.out + r.err:
                fails.append((dict(sig, relation='diagnostic-no-option-name'), {'res': r.brief(), 'stdout': core.preview(r.out)}))
            if rok.status != 0:
                fails.append((dict(sig, relation='consistent-setting-refused'), {'res': rok.brief()}))
        else:
            guarded = False
            if expected:
                fails.append((dict(sig, relation='conflict-not-refused', option=name), {'res': r.brief()}))
    return [(s, dict(x, case=list(case), kind='nlmax', cfg=cfg)) for s, x in fails], guarded


# ------------------------------------------------------------------------------------------------ random text
ALPH = ['=', ' ', '\t', '#', '"', "'", '`', '\\', ',', '.', '-', '!', '~', '\n', '\r', '\x00', '\xe9', '0', '9', 'a', '_']


def do_random(case):
    seed, = case
    rng = random.Random(seed)
    reg = registry.load()
    words = ['include', 'using', 'type', 'set', 'macro-open', 'macro-close', 'macro-else', 'file_ext', 'true', 'false', 'ignore',
             'add', 'remove', 'force', 'lead', 'trail', 'CPP', 'FUNC_CALL', '0.68', '0.0.1', 'b.cfg', '-1', '65536', '4294967296']
    n = rng.randint(1, 30)
    lines = []
    for _ in range(n):
        k = rng.random()
        if k < 0.35:
            o = rng.choice(reg)
            v = rng.choice([registry.draw_value(rng, o) if o['type'] != 'str' else 'abc', rng.choice(words), rng.choice(reg)['name'],
                            str(rng.randint(-10 ** rng.randint(1, 12), 10 ** rng.randint(1, 12)))])
            sep = rng.choice(['=', ' = ', ' ', '\t', ',', '=='])
            lines.append(o['name'] + sep + rng.choice(['', '-', '!', '~', '"', "'"]) + v + rng.choice(['', '', '"', ' # c', ' extra']))
        elif k < 0.6:
            lines.append(' '.join(rng.choice(words + [rng.choice(reg)['name']]) for _ in range(rng.randint(1, 5))))
        else:
            lines.append(''.join(rng.choice(ALPH + words) for _ in range(rng.randint(0, 40))))
    text = rng.choice(['\n', '\n', '\r\n', '\r']).join(lines) + rng.choice(['', '\n'])
    data = text.encode('latin-1', 'replace')
    # byte mutations
    if rng.random() < 0.5 and data:
        b = bytearray(data)
        for _ in range(rng.randint(1, 6)):
            p = rng.randrange(len(b))
            op = rng.random()
            if op < 0.4:
                b[p] = rng.randrange(256)
            elif op < 0.7:
                del b[p]
            else:
                b[p:p] = bytes([rng.randrange(256)]) * rng.randint(1, 3)
            if not b:
                break
        data = bytes(b)
    fails = []
    with run.TempDir() as d:
        run.write(os.path.join(d, 'b.cfg'), data)
        r = dump(d, 'b.cfg')
        why = sane(r)
        if why:
            fails.append(({'kind': 'random', 'relation': 'crash', 'why': why, 'frame': top_frame(r.err)},
                          {'res': r.brief(), 'cfg_b64': core.b64(data), 'cfg': core.preview(data, 600)}))
        elif r.status == 0:
            # a config that loads must also be usable for formatting without a crash
            f = run.run(['-c', os.path.join(d, 'b.cfg'), '-l', 'C', '-q'], stdin=b'int main(void)\n{\n  return 0;\n}\n', cwd=d, kind='san')
            why = sane(f)
            if why:
                fails.append(({'kind': 'random', 'relation': 'crash-format', 'why': why, 'frame': top_frame(f.err)},
                              {'res': f.brief(), 'cfg_b64': core.b64(data), 'cfg': core.preview(data, 600)}))
    return [(s, dict(x, case=list(case), kind='random')) for s, x in fails], r.status


def top_frame(err):
    import re
    for l in err.decode('utf-8', 'replace').splitlines():
        m = re.search(r'#\d+ 0x[0-9a-f]+ in (\S+) /repo/src/([^:]+)', l)
        if m:
            return '%s@%s' % (m.group(1)[:60], m.group(2))
    m = re.search(r"what\(\):\s*(.*)", err.decode('utf-8', 'replace'))
    return 'terminate:' + m.group(1)[:40] if m else ''


# ------------------------------------------------------------------------------------------------ driver
def work(chunk):
    p = core.Part()
    for kind, case in chunk:
        try:
            if kind == 'badline':
                fails = do_badline(case)
                p.case(('badline', case[1], case[2]), True, ['badline:' + case[2]])
                if case[0] % 97 == 0:
                    p.sample({'kind': kind, 'option': case[1], 'defect': case[2], 'value': case[3][:40]}, cap=1)
            elif kind == 'syntax':
                fails = do_syntax(case)
                p.case(('syntax', case[1]), True, ['syntax'])
                if case[0] % 7 == 0:
                    p.sample({'kind': kind, 'label': case[1]}, cap=1)
            elif kind == 'nlmax':
                fails, guarded = do_nlmax(case)
                p.case(('nlmax',) + tuple(case), bool(guarded), ['nlmax:guarded' if guarded else 'nlmax:not-guarded'])
            else:
                fails, st = do_random(case)
                p.case(('random',) + tuple(case), True, ['random:status=%s' % st])
            for sig, rep in fails:
                p.fail(sig, rep)
        except Exception:
            import traceback
            p.infra('%s %r: %s' % (kind, case, traceback.format_exc()[-600:]))
    return p.result()


def replay(rep):
    kind, case = rep['kind'], rep['case']
    if kind == 'badline':
        return do_badline(tuple(case))
    if kind == 'syntax':
        return do_syntax(tuple(case))
    if kind == 'nlmax':
        return do_nlmax(tuple(case))[0]
    return do_random(tuple(case))[0]


def main(ctx):
    core.replay_regress(ctx, replay)
    rng = random.Random(core.subseed(ctx.seed, 'c16'))
    reg = registry.load()
    cs = []
    nbad = 0
    for o in reg:
        if o['type'] == 'str':
            continue
        for bv in bad_values(o, reg, rng):
            if len(bv) == 2:
                cs.append(('badline', (rng.randrange(1 << 30), o['name'], bv[0], bv[1])))
            else:
                dclass, pname, prefix, pval = bv
                cs.append(('badline', (rng.randrange(1 << 30), o['name'], dclass, prefix + pname, '%s = %d' % (pname, pval))))
            nbad += 1
    # unknown names near real ones
    near = reg if ctx.tier == 'thorough' else rng.sample(reg, 200)
    for o in near:
        n = o['name']
        for variant in (n + 'x', n[:-1], n.replace('_', '-', 1), 'x' + n):
            if variant.lower() not in registry.by_name() and variant not in ('include', 'using', 'type', 'set'):
                v = registry.draw_value(rng, o) if o['type'] != 'str' else 'abc'
                cs.append(('badline', (rng.randrange(1 << 30), variant, 'unknown_name', v)))
    reps = 6 if ctx.tier == 'thorough' else 2
    for c in syntax_cases():
        for k in range(reps):
            cs.append(('syntax', (rng.randrange(1 << 30), c[0])))
    for name, expected in guarded_options():
        for n in ((1, 2, 3) if ctx.tier == 'thorough' else (2,)):
            cs.append(('nlmax', (name, n, expected)))
    nrand = 60000 if ctx.tier == 'thorough' else 2500
    for i in range(nrand):
        cs.append(('random', (core.subseed(ctx.seed, 'c16r', i),)))
    rng.shuffle(cs)
    for part in core.pmap(work, core.chunks(cs, core.NPROC * 8)):
        ctx.merge(part)
    if ctx.hist.get('nlmax:guarded', 0) < 10:
        ctx.infra_errors.append('fewer than 10 nl_max-guarded options found: generator/probe is broken')
    ctx.rule = ('every non-string option x {below min, above max, far above, overflow, word, float, trailing junk, number for '
                'enum, word of another enum, incompatible reference, dangling reference} (%d bad lines, all visited) inserted '
                'at a seeded position of a seeded good config; unknown names near real ones; %d malformed-syntax forms; nl_max '
                'conflict for every numeric nl_ option; %d random/mutated config texts. Judged on the ASan+UBSan binary. '
                'non-trivial = the line must be rejected (badline, syntax, guarded nl_max pair) or is random text; distinct by '
                '(option, defect class) resp. text seed.' % (nbad, len(syntax_cases()), nrand))
    ctx.extra['per_option_defect_classes_exhaustive'] = True
    ctx.assumptions = ['option list, types and ranges are read from the binary under test',
                       'the blank-line options that must be refused above nl_max are those of the documentation group "Blank line '
                       'options" (plus nl_start/end_of_file_min) whose description does not call them a maximum or a mode']
