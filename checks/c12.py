"""C12  --check and --if-changed tell the truth and write nothing they should not.

Domain   z drawn from: corpus files x, their formatted versions y = f(x), and boundary perturbations of y (last byte, first
         byte, one blank inserted, final newline removed/added, terminator change, empty) x configs {default, seeded random
         whitespace configs}; single files, stdin, and lists mixing passing and failing files (positional and -F).
Oracle   reference run r = f(z) (ordinary -f run in a separate directory, same file name).
         --check: exit 0 <=> all files have f(z) == z; PASS/FAIL line per file agrees; directory snapshot (names, sizes,
         mtime_ns, sha256) unchanged; --check together with output options is refused.
         --if-changed: the target (-o FILE, stdout, suffix file, in-place) is written <=> f(z) != z, with bytes == f(z).
"""
import hashlib
import os
import random

from vf import core, corpus, registry, run

BUILDS = ('fast',)
LEVEL = 'exploration'


def snapshot(d):
    out = {}
    for dp, dn, fn in os.walk(d):
        for f in fn:
            p = os.path.join(dp, f)
            st = os.stat(p)
            out[os.path.relpath(p, d)] = (st.st_size, st.st_mtime_ns, hashlib.sha256(open(p, 'rb').read()).hexdigest())
        for x in dn:
            p = os.path.join(dp, x)
            out[os.path.relpath(p, d) + '/'] = (0, os.stat(p).st_mtime_ns, '')
    return out


def reference(z, name, lang, cfg):
    with run.TempDir() as d:
        run.write(os.path.join(d, 'c.cfg'), cfg)
        run.write(os.path.join(d, name), z)
        return run.run(['-c', 'c.cfg', '-l', lang, '-q', '-f', name], cwd=d)


def perturb(y, how):
    if how == 'formatted':
        return y
    if how == 'last_byte':
        if not y:
            return b'\n'
        return y[:-1] + (b'\r' if y[-1:] == b'\n' else b'\n')
    if how == 'last_byte_nonws':
        return y[:-1] + b';' if y else b';'
    if how == 'drop_final_newline':
        return y.rstrip(b'\r\n')
    if how == 'extra_final_newline':
        return y + b'\n'
    if how == 'first_byte':
        return b' ' + y
    if how == 'first_byte_same_size':
        return (b' ' + y[1:]) if y and y[0:1] not in b' \t' else y
    if how == 'crlf':
        return y.replace(b'\r\n', b'\n').replace(b'\n', b'\r\n')
    if how == 'empty':
        return b''
    if how == 'trailing_blank_mid':
        i = y.find(b'\n', len(y) // 2)
        return y[:i] + b' ' + y[i:] if i > 0 else y + b' '
    if how == 'tab_for_spaces':
        i = y.find(b'    ')
        return y[:i] + b'\t' + y[i + 4:] if i >= 0 else y
    if how == 'double_blank':
        i = y.find(b' = ')
        return y[:i] + b'  = ' + y[i + 3:] if i >= 0 else y
    raise ValueError(how)


HOWS = ['formatted', 'last_byte', 'last_byte_nonws', 'drop_final_newline', 'extra_final_newline', 'first_byte',
        'first_byte_same_size', 'crlf', 'empty', 'trailing_blank_mid', 'tab_for_spaces', 'double_blank', 'original']


def make_z(rel, lang, cfg, how):
    x = corpus.read(rel)
    name = os.path.basename(rel)
    if how == 'original':
        return x
    r = reference(x, name, lang, cfg)
    if not r.ok:
        return None
    return perturb(r.out, how)


def do_single(case):
    """(rel, lang, cfgseed, how, mode)   mode in check_f, check_pos, check_stdin, ifc_o, ifc_stdout, ifc_suffix, ifc_replace,
    ifc_nobackup, ifc_o_same"""
    rel, lang, cfgseed, how, mode = case
    rng = random.Random(cfgseed)
    cfg = '' if cfgseed % 3 == 0 else registry.cfg_text(registry.random_cfg(rng, ('WS',), 0.04))
    z = make_z(rel, lang, cfg, how)
    name = os.path.basename(rel)
    if z is None:
        return [], 'refused', False
    enc = ['raw', 'raw', 'raw', 'raw', 'utf16le', 'utf16be', 'utf8bom'][(cfgseed // 3) % 7]
    if enc != 'raw':
        try:
            t = z.decode('utf-8')
            if '\x00' not in t and not t.startswith('\ufeff'):
                z = {'utf16le': b'\xff\xfe' + t.encode('utf-16-le'), 'utf16be': b'\xfe\xff' + t.encode('utf-16-be'),
                     'utf8bom': b'\xef\xbb\xbf' + z}[enc]
        except UnicodeDecodeError:
            pass
    ref = reference(z, name, lang, cfg)
    if ref.timeout:
        return [], 'inconclusive', False
    fails = []
    sig = {'kind': 'single', 'mode': mode, 'how': how}
    same = ref.ok and ref.out == z
    cls = 'same' if same else ('differs' if ref.ok else 'fmt-fails')
    with run.TempDir() as d:
        run.write(os.path.join(d, 'c.cfg'), cfg)
        os.mkdir(os.path.join(d, 'w'))
        w = os.path.join(d, 'w')
        run.write(os.path.join(w, name), z)
        os.utime(os.path.join(w, name), ns=(10 ** 18, 10 ** 18))
        before = snapshot(w)
        base = ['-c', '../c.cfg', '-l', lang]
        rep = {'case': list(case), 'cfg': cfg, 'ref': ref.brief(), 'same': same}
        if mode.startswith('check'):
            if mode == 'check_f':
                r = run.run(base + ['--check', '-f', name], cwd=w)
            elif mode == 'check_pos':
                r = run.run(base + ['--check', name], cwd=w)
            elif mode == 'check_q':
                r = run.run(base + ['--check', '-q', name], cwd=w)
            else:
                r = run.run(base + ['--check', '--assume', name], stdin=z, cwd=w)
            rep['res'] = r.brief()
            rep['stdout'] = core.preview(r.out, 300)
            after = snapshot(w)
            if after != before:
                fails.append((dict(sig, relation='check-touched-files'), dict(rep, before=str(before)[:300], after=str(after)[:300])))
            if not ref.ok:
                # formatting itself fails: --check must not report success
                if r.status == 0:
                    fails.append((dict(sig, relation='check-exit-0-on-format-failure'), rep))
            else:
                if (r.status == 0) != same or r.signal is not None:
                    fails.append((dict(sig, relation='check-exit-status', want_zero=same), rep))
                text = (r.out + r.err).decode('utf-8', 'replace')
                has_pass, has_fail = 'PASS:' in text, 'FAIL:' in text
                if mode != 'check_q' and (has_pass != same or has_fail != (not same)):
                    fails.append((dict(sig, relation='check-pass-fail-line', want_pass=same), rep))
                if mode == 'check_q' and (has_pass and not same):
                    fails.append((dict(sig, relation='check-pass-fail-line', want_pass=same), rep))
        else:
            target = None
            if mode == 'ifc_o':
                r = run.run(base + ['--if-changed', '-f', name, '-o', 'out.txt'], cwd=w)
                target = 'out.txt'
            elif mode == 'ifc_stdout':
                r = run.run(base + ['--if-changed', '-q', '-f', name], cwd=w)
            elif mode == 'ifc_stdin_o':
                # the source on stdin, the target named with -o
                r = run.run(base + ['--if-changed', '-q', '--assume', name, '-o', 'out.txt'], stdin=z, cwd=w)
                target = 'out.txt'
            elif mode == 'ifc_stdin_stdout':
                r = run.run(base + ['--if-changed', '-q', '--assume', name], stdin=z, cwd=w)
            elif mode == 'ifc_suffix':
                r = run.run(base + ['--if-changed', name], cwd=w)
                target = name + '.uncrustify'
            elif mode == 'ifc_prefix':
                r = run.run(base + ['--if-changed', '--prefix', 'outdir', name], cwd=w)
                target = os.path.join('outdir', name)
            elif mode == 'ifc_replace':
                r = run.run(base + ['--if-changed', '--replace', name], cwd=w)
                target = name
            elif mode == 'ifc_nobackup':
                r = run.run(base + ['--if-changed', '--no-backup', name], cwd=w)
                target = name
            else:
                r = run.run(base + ['--if-changed', '-f', name, '-o', name], cwd=w)
                target = name
            rep['res'] = r.brief()
            after = snapshot(w)
            if not ref.ok:
                if after.get(name, (None,))[2] != before[name][2]:
                    fails.append((dict(sig, relation='ifc-source-changed-on-format-failure'), rep))
            elif r.status != 0 or r.signal is not None:
                fails.append((dict(sig, relation='ifc-exit-status'), rep))
            elif mode in ('ifc_stdout', 'ifc_stdin_stdout'):
                if same and r.out != b'':
                    fails.append((dict(sig, relation='ifc-wrote-though-unchanged'), dict(rep, stdout=core.preview(r.out, 200))))
                if not same and r.out != ref.out:
                    fails.append((dict(sig, relation='ifc-wrong-bytes'), dict(rep, stdout=core.preview(r.out, 200))))
            elif target == name:
                # in place: the file must hold z when unchanged (and not even be touched), f(z) otherwise
                got = run.read(os.path.join(w, name))
                if same:
                    if after != before:
                        fails.append((dict(sig, relation='ifc-wrote-though-unchanged'), dict(rep, after=str(after)[:300])))
                elif got != ref.out:
                    fails.append((dict(sig, relation='ifc-wrong-bytes'), dict(rep, got=core.preview(got, 200))))
            else:
                exists = os.path.exists(os.path.join(w, target))
                if same and exists:
                    fails.append((dict(sig, relation='ifc-wrote-though-unchanged'), rep))
                if not same and not exists:
                    fails.append((dict(sig, relation='ifc-not-written-though-changed'), rep))
                if not same and exists and run.read(os.path.join(w, target)) != ref.out:
                    fails.append((dict(sig, relation='ifc-wrong-bytes'), dict(rep, got=core.preview(run.read(os.path.join(w, target)), 200))))
                if after.get(name) != before[name]:
                    fails.append((dict(sig, relation='ifc-source-touched'), rep))
    boundary = how in ('last_byte', 'last_byte_nonws', 'drop_final_newline', 'extra_final_newline', 'first_byte_same_size', 'empty',
                       'trailing_blank_mid', 'formatted')
    return fails, cls, boundary


def do_multi(case):
    """(seed, n, via)  via in pos, F, mixed"""
    seed, n, via = case
    rng = random.Random(seed)
    files = corpus.select(rng, n, langs=('C',), maxsize=8000)
    cfg = '' if seed % 2 else registry.cfg_text(registry.random_cfg(rng, ('WS',), 0.04))
    fails = []
    sig = {'kind': 'multi', 'via': via}
    with run.TempDir() as d:
        run.write(os.path.join(d, 'c.cfg'), cfg)
        w = os.path.join(d, 'w')
        os.mkdir(w)
        expect = {}
        refs = {}
        names = []
        for k, (rel, lang) in enumerate(files):
            how = rng.choice(['formatted', 'formatted', 'original', 'last_byte', 'drop_final_newline', 'trailing_blank_mid'])
            z = make_z(rel, 'C', cfg, how)
            if z is None:
                continue
            name = 'f%d_%s' % (k, os.path.basename(rel))
            ref = reference(z, name, 'C', cfg)
            if not ref.ok:
                continue
            run.write(os.path.join(w, name), z)
            expect[name] = (ref.out == z)
            refs[name] = ref.out
            names.append(name)
        if len(names) < 2:
            return [], 'skip', False
        before = snapshot(w)
        args = ['-c', '../c.cfg', '-l', 'C', '--check']
        listfile = os.path.join(d, 'list.txt')
        if via == 'pos':
            args += names
        elif via == 'F':
            run.write(listfile, '\n'.join(names) + '\n')
            args += ['-F', '../list.txt']
        else:
            h = len(names) // 2
            run.write(listfile, '\n'.join(names[h:]) + '\n')
            args += names[:h] + ['-F', '../list.txt']
        r = run.run(args, cwd=w)
        after = snapshot(w)
        rep = {'case': list(case), 'cfg': cfg, 'expect': expect, 'res': r.brief(), 'stdout': core.preview(r.out, 600)}
        allsame = all(expect.values())
        if after != before:
            fails.append((dict(sig, relation='check-touched-files'), rep))
        if (r.status == 0) != allsame:
            fails.append((dict(sig, relation='check-exit-status', want_zero=allsame), rep))
        text = (r.out + r.err).decode('utf-8', 'replace')
        for name, ok in expect.items():
            p = ('PASS: %s ' % name) in text
            f = ('FAIL: %s ' % name) in text
            if p != ok or f != (not ok):
                fails.append((dict(sig, relation='check-pass-fail-line', want_pass=ok), dict(rep, file=name)))
                break
        # the same files through --if-changed in ONE invocation: every target is written iff its file changes, with f(z)
        before = snapshot(w)
        args = ['-c', '../c.cfg', '-l', 'C', '-q', '--if-changed', '--suffix', '.new']
        if via == 'F':
            args += ['-F', '../list.txt']
        elif via == 'pos':
            args += names
        else:
            args += names[:len(names) // 2] + ['-F', '../list.txt']
        r2 = run.run(args, cwd=w)
        rep2 = {'case': list(case), 'cfg': cfg, 'expect': expect, 'res': r2.brief(), 'mode': 'if-changed multi-file'}
        sig2 = {'kind': 'multi-ifc', 'via': via}
        if not r2.timeout:
            if r2.status != 0 or r2.signal is not None:
                fails.append((dict(sig2, relation='ifc-exit-status'), rep2))
            for name in names:
                t = os.path.join(w, name + '.new')
                if expect[name] and os.path.exists(t):
                    fails.append((dict(sig2, relation='ifc-wrote-though-unchanged'), dict(rep2, file=name)))
                    break
                if not expect[name] and not os.path.exists(t):
                    fails.append((dict(sig2, relation='ifc-not-written-though-changed'), dict(rep2, file=name)))
                    break
                if not expect[name] and run.read(t) != refs[name]:
                    fails.append((dict(sig2, relation='ifc-wrong-bytes'), dict(rep2, file=name, got=core.preview(run.read(t), 200))))
                    break
            aft = snapshot(w)
            if any(aft.get(n) != before[n] for n in names):
                fails.append((dict(sig2, relation='ifc-source-touched'), rep2))
    mixed = len(set(expect.values())) == 2
    return fails, 'mixed' if mixed else ('allpass' if allsame else 'allfail'), mixed


def do_refuse(case):
    flag, = case
    with run.TempDir() as d:
        run.write(os.path.join(d, 'c.cfg'), '')
        run.write(os.path.join(d, 'a.c'), b'int  a ;\n')
        before = snapshot(d)
        extra = {'-o': ['-f', 'a.c', '-o', 'out.c'], '--replace': ['--replace', 'a.c'], '--no-backup': ['--no-backup', 'a.c'],
                 '--suffix': ['--suffix', '.x', 'a.c'], '--prefix': ['--prefix', 'p', 'a.c'], '--if-changed': ['--if-changed', '-f', 'a.c'],
                 '--mtime': ['--mtime', '--replace', 'a.c']}[flag]
        r = run.run(['-c', 'c.cfg', '--check'] + extra, cwd=d)
        after = snapshot(d)
        fails = []
        if r.status == 0 or r.signal is not None:
            fails.append(({'kind': 'refuse', 'flag': flag, 'relation': 'check-with-output-option-accepted'}, {'case': list(case), 'res': r.brief()}))
        if after != before:
            fails.append(({'kind': 'refuse', 'flag': flag, 'relation': 'check-touched-files'}, {'case': list(case), 'after': str(after)[:300]}))
    return fails


def work(chunk):
    p = core.Part()
    for kind, case in chunk:
        try:
            if kind == 'single':
                fails, cls, boundary = do_single(case)
                p.case(('single',) + tuple(case), boundary and cls in ('same', 'differs'), ['single:%s:%s' % (case[4], cls)])
                if boundary and case[2] % 13 == 0:
                    p.sample({'kind': kind, 'file': case[0], 'perturbation': case[3], 'mode': case[4], 'f(z)==z': cls}, cap=1)
            elif kind == 'multi':
                fails, cls, mixed = do_multi(case)
                p.case(('multi',) + tuple(case), mixed, ['multi:%s:%s' % (case[2], cls)])
                if mixed:
                    p.sample({'kind': kind, 'case': list(case), 'class': cls}, cap=1)
            else:
                fails = do_refuse(case)
                p.case(('refuse',) + tuple(case), True, ['refuse'])
            for sig, rep in fails:
                p.fail(sig, dict(rep, kind=kind))
        except Exception:
            import traceback
            p.infra('%s %r: %s' % (kind, case, traceback.format_exc()[-700:]))
    return p.result()


def replay(rep):
    kind, case = rep['kind'], tuple(rep['case'])
    if kind == 'single':
        return do_single(case)[0]
    if kind == 'multi':
        return do_multi(case)[0]
    return do_refuse(case)


MODES = ['check_f', 'check_pos', 'check_stdin', 'check_q', 'ifc_o', 'ifc_stdout', 'ifc_suffix', 'ifc_prefix', 'ifc_replace', 'ifc_nobackup',
         'ifc_o_same', 'ifc_stdin_o', 'ifc_stdin_stdout']


def main(ctx):
    core.replay_regress(ctx, replay)
    rng = random.Random(core.subseed(ctx.seed, 'c12'))
    nfiles = 500 if ctx.tier == 'thorough' else 120
    files = corpus.select(rng, nfiles, maxsize=12000)
    cs = []
    for rel, lang in files:
        seeds = [rng.randrange(1 << 30) for _ in range(2 if ctx.tier == 'thorough' else 1)]
        for cfgseed in seeds:
            for how in HOWS:
                modes = MODES if ctx.tier == 'thorough' else rng.sample(MODES, 5)
                for mode in modes:
                    cs.append(('single', (rel, lang, cfgseed, how, mode)))
    # UTF-16 / BOM inputs: --if-changed must write the same bytes as a normal run (embedded NULs, BOM)
    for i in range(1500 if ctx.tier == 'thorough' else 250):
        cs.append(('multi', (rng.randrange(1 << 30), rng.randint(2, 6), rng.choice(['pos', 'F', 'mixed']))))
    for flag in ('-o', '--replace', '--no-backup', '--suffix', '--prefix', '--if-changed', '--mtime'):
        cs.append(('refuse', (flag,)))
    rng.shuffle(cs)
    for part in core.pmap(work, core.chunks(cs, core.NPROC * 8)):
        ctx.merge(part)
    ctx.rule = ('z = corpus file, its formatted version, or one of %d boundary perturbations of the formatted version (last byte, '
                'same-size first byte, final newline dropped/added, one blank inserted, CRLF, empty ...) x seeded whitespace config x input encoding (as is, UTF-16LE/BE, UTF-8+BOM) '
                'x mode (--check via -f / positional / stdin / -q; --if-changed to -o, stdout, suffix, prefix, --replace, --no-backup, '
                '-o same file); multi-file --check lists (positional, -F, mixed). Oracle: ordinary reference run f(z). '
                'non-trivial = boundary perturbation with a decided reference (single) or a list mixing passing and failing files; '
                'distinct by (file, config seed, perturbation, mode).' % (len(HOWS) - 2))
    ctx.assumptions = ['the reference f(z) is an ordinary `-f FILE` run of the same binary in a separate directory (same base name)',
                       'files larger than 12 KB are not drawn (cost)']
