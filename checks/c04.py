"""C04  Code-modifying options change only the tokens they name.

Domain   corpus (all languages), Hypothesis-generated C programs (nested compound statements, dangling else, one- and
         two-statement bodies before `else`, macros, preprocessor inside bodies) x random non-empty subsets of the mod_ options
         (1..5 options, every enumerated value) together with random whitespace-class options; plus a single-option sweep
         (every mod_ option at every value over a per-language corpus slice).
Oracle   token streams from the independent lexer (C family) and from the tok0 hook dump (all languages).  Each enabled option
         contributes the token kinds it documents and a direction (add/force: insert only; remove: delete only).  With A = union of
         the kinds of the enabled options:
           (1) the two streams with all A-kind tokens removed are equal as sequences (an edit script made only of named tokens
               exists and every other token keeps its order);
           (2) per kind the count changes only in a permitted direction; kinds that may only move (`}` for mod_move_case_*) keep
               their count;
           (3) ()[]{} of the output are balanced whenever the input's are;
           (4) sorted / de-duplicated lines (#include, import, using directives - not C# `using (...)` statements -, D alias
               declarations, which uncrustify types as using) are compared as multisets / sets of whole lines, everything
               outside them as a sequence.
Not in the domain: mod_sort_oc_properties (reorders attribute words inside @property(...); no closed description of its edit set).
"""
import collections
import os
import random
import re

from vf import clex, core, corpus, family, gen_c, layout, registry, tokrel

BUILDS = ('fast',)
LEVEL = 'exploration'

BRACE_OPTS = ('mod_full_brace_do', 'mod_full_brace_for', 'mod_full_brace_function', 'mod_full_brace_if', 'mod_full_brace_while',
              'mod_full_brace_using', 'mod_case_brace')
PAREN_OPTS = ('mod_paren_on_return', 'mod_paren_on_throw')
INT_OPTS = ('mod_int_short', 'mod_short_int', 'mod_int_long', 'mod_long_int', 'mod_int_signed', 'mod_signed_int', 'mod_int_unsigned',
            'mod_unsigned_int')
EXCLUDED = ('mod_sort_oc_properties',)
LOOP_KINDS = ('for', 'while', 'do', '(', ')', ';', '1', 'true')


def plan(cfgd):
    """-> (kinds: {text: set of directions in '+','-','='}, line_ops: set in {'sort_include','sort_import','sort_using','dedup'})"""
    kinds = collections.defaultdict(set)
    ops = set()

    def iarf(v, toks):
        if v in ('add', 'force'):
            for t in toks:
                kinds[t].add('+')
        if v in ('remove', 'force'):
            # `force` = add where missing; nothing is removed, but keep it symmetric with the documentation ("add or remove")
            pass
        if v == 'remove':
            for t in toks:
                kinds[t].add('-')
    for n, v in cfgd.items():
        if n in BRACE_OPTS:
            iarf(v, '{}')
        elif n in PAREN_OPTS:
            iarf(v, '()')
        elif n == 'mod_full_brace_if_chain' and v != '0':
            for t in '{}':
                kinds[t].update('+-')
        elif n == 'mod_full_brace_if_chain_only' and v == 'true':
            for t in '{}':
                kinds[t].add('+')
        elif n in ('mod_full_paren_if_bool', 'mod_full_paren_assign_bool', 'mod_full_paren_return_bool') and v == 'true':
            for t in '()':
                kinds[t].add('+')
        elif n == 'mod_remove_extra_semicolon' and v == 'true':
            kinds[';'].add('-')
        elif n == 'mod_pawn_semicolon' and v == 'true':
            kinds[';'].add('+')
        elif n in INT_OPTS:
            iarf(v, ['int'])
        elif n == 'mod_enum_last_comma':
            iarf(v, [','])
        elif n == 'mod_infinite_loop' and v != '0':
            for t in LOOP_KINDS:
                kinds[t].update('+-')
        elif n == 'mod_remove_empty_return' and v == 'true':
            kinds['return'].add('-')
            kinds[';'].add('-')
        elif n in ('mod_move_case_break', 'mod_move_case_return') and v == 'true':
            kinds['}'].add('=')
        elif n == 'mod_sort_include' and v == 'true':
            ops.add('sort_include')
        elif n == 'mod_sort_import' and v == 'true':
            ops.add('sort_import')
        elif n == 'mod_sort_using' and v == 'true':
            ops.add('sort_using')
        elif n == 'mod_remove_duplicate_include' and v == 'true':
            ops.add('dedup')
        elif n == 'mod_sort_incl_import_grouping_enabled' and v == 'true':
            ops.add('grouping')      # grouping also removes exact duplicates among the sorted lines (dedupe_imports)
    return kinds, ops


def split_lines(stream, ops):
    """remove the whole lines owned by sort/dedup options from a token-text stream; returns (rest, [line tuples])
    stream elements are texts; directive ends are '<EOD>' (tok0) / directive boundaries '<DIR>','<EOD>' (clex)"""
    if not ops:
        return stream, []
    rest, owned = [], []
    i, n = 0, len(stream)
    want_dir = set()
    if 'sort_include' in ops or 'dedup' in ops:
        want_dir |= {'include', 'import'}
    while i < n:
        t = stream[i]
        j = i
        if t == '<DIR>':
            j = i + 1
        if j + 1 < n and stream[j] == '#' and stream[j + 1] in want_dir:
            k = j
            while k < n and stream[k] != '<EOD>':
                k += 1
            owned.append(tuple(stream[j:k]))
            i = k + 1
            continue
        if (('sort_import' in ops or 'sort_using' in ops) and t in ('import', 'using', 'alias') and i + 1 < n and stream[i + 1] != '(') and (i == 0 or stream[i - 1] in (';', '}', '{', '<EOD>')):
            k = i
            while k < n and stream[k] != ';' and k - i < 40:
                k += 1
            if k < n and stream[k] == ';':
                owned.append(tuple(stream[i:k + 1]))
                i = k + 1
                continue
        rest.append(t)
        i += 1
    return rest, owned


def balanced(stream):
    st = []
    pair = {')': '(', ']': '[', '}': '{'}
    for t in stream:
        if t in ('(', '[', '{'):
            st.append(t)
        elif t in pair:
            if not st or st[-1] != pair[t]:
                return False
            st.pop()
    return not st


def compare(a, b, kinds, ops, view):
    """a, b: lists of token texts.  returns a diff descriptor or None"""
    a2, la = split_lines(a, ops)
    b2, lb = split_lines(b, ops)
    if ops:
        if 'dedup' in ops or 'grouping' in ops:
            bad = set(lb) - set(la)
            if bad or len(lb) > len(la) or (set(la) - set(lb)):
                return {'class': 'owned-lines', 'at': [' '.join(sorted(set(la) ^ set(lb))[0])[:60] if set(la) ^ set(lb) else 'count'], 'got': [str(len(lb))],
                        'index': 0, 'in': [' '.join(x) for x in la[:6]], 'out': [' '.join(x) for x in lb[:6]]}
        elif collections.Counter(la) != collections.Counter(lb):
            diff = (collections.Counter(la) - collections.Counter(lb)) + (collections.Counter(lb) - collections.Counter(la))
            return {'class': 'owned-lines', 'at': [' '.join(next(iter(diff)))[:60]], 'got': [str(len(lb))], 'index': 0,
                    'in': [' '.join(x) for x in la[:6]], 'out': [' '.join(x) for x in lb[:6]]}
    ka = [t for t in a2 if t not in kinds]
    kb = [t for t in b2 if t not in kinds]
    d = tokrel.first_diff(ka, kb)
    if d is not None:
        d['class'] = 'unnamed-token-' + d['class']
        return d
    ca, cb = collections.Counter(t for t in a2 if t in kinds), collections.Counter(t for t in b2 if t in kinds)
    for t, dirs in kinds.items():
        if cb[t] > ca[t] and '+' not in dirs:
            return {'class': 'count-direction', 'at': [t, '+%d' % (cb[t] - ca[t])], 'got': [','.join(sorted(dirs))], 'index': 0, 'in': [str(ca[t])], 'out': [str(cb[t])]}
        if cb[t] < ca[t] and '-' not in dirs:
            return {'class': 'count-direction', 'at': [t, '-%d' % (ca[t] - cb[t])], 'got': [','.join(sorted(dirs))], 'index': 0, 'in': [str(ca[t])], 'out': [str(cb[t])]}
    if balanced(a) and not balanced(b):
        return {'class': 'unbalanced-output', 'at': ['%d{ %d} %d( %d)' % (b.count('{'), b.count('}'), b.count('('), b.count(')'))], 'got': [], 'index': 0,
                'in': ['%d{ %d} %d( %d)' % (a.count('{'), a.count('}'), a.count('('), a.count(')'))], 'out': []}
    return None


def judge(case):
    e = tokrel.execute(case.src, case.lang, case.cfg)
    if e.timeout:
        return {'inconclusive': True}, []
    if not e.accepted:
        return {'counts': ['refused'], 'classes': ['refused:' + case.lang]}, []
    kinds, ops = plan(case.cfgd)
    fails = []
    counts = []
    fired = False
    if e.tok_out is not None:
        a = [t for t, pp in tokrel.code_stream(e.tok_in, tokrel.angle_close_positions(e.pre))]
        b = [t for t, pp in tokrel.code_stream(e.tok_out, tokrel.angle_close_positions(e.pre2 or []))]
        fired = a != b
        d = compare(a, b, kinds, ops, 'tok0')
        if d:
            fails.append(('tok0-mod', d))
    if case.lang in corpus.CFAMILY:
        lin = tokrel.lex_or_none(case.src, case.lang)
        lout = tokrel.lex_or_none(e.out, case.lang) if lin is not None else None
        if lin is None:
            counts.append('unlexable')
        elif lout is None:
            fails.append(('clex-mod', {'class': 'unlexable-output', 'at': [], 'got': [], 'index': 0, 'in': [], 'out': []}))
        else:
            a = [tokrel.text_of(t) for t in clex.code_stream(lin)]
            b = [tokrel.text_of(t) for t in clex.code_stream(lout)]
            d = compare(a, b, kinds, ops, 'clex')
            if d and (b'\\ ' in case.src or b'\\\t' in case.src):
                g1, g2 = tokrel.lex_or_none(case.src, case.lang, True), tokrel.lex_or_none(e.out, case.lang, True)
                if g1 is not None and g2 is not None and compare([tokrel.text_of(t) for t in clex.code_stream(g1)],
                                                                 [tokrel.text_of(t) for t in clex.code_stream(g2)], kinds, ops, 'clex') is None:
                    d = None
            if d:
                fails.append(('clex-mod', d))
    if fails:
        tag = gen_c.construct_tags(case.src)        # (part of the signature, see gen_c.construct_tags)
        for _rel, d_ in fails:
            d_['first_in'] = (str(d_.get('first_in') or '') + tag).strip() or None
    mods = sorted(n for n in case.cfgd if n.startswith('mod_'))
    info = {'nontrivial': fired, 'counts': counts,
            'classes': ['lang:' + case.lang, 'origin:' + (case.origin or {}).get('kind', '?'), 'fired' if fired else 'no-token-change'] +
                       ['opt:' + m for m in mods] if fired else ['lang:' + case.lang, 'no-token-change'],
            'sample': {'origin': case.origin, 'lang': case.lang, 'cfg': case.cfgd, 'input_head': core.preview(case.src, 160)}}
    return info, fails


replay = family.replay_case(judge)
_EX = {}


def mod_options():
    return [o for o in registry.load() if o['name'].startswith('mod_') and o['name'] not in EXCLUDED and o['type'] != 'str'
            and not o['name'].startswith('mod_sort_oc_property')]


def mod_value(rng, o):
    if o['name'] == 'mod_full_brace_nl':
        return str(rng.choice([0, 1, 2, 3, 5]))
    if o['name'].startswith('mod_add_long_'):
        return str(rng.choice([0, 1, 2, 5, 20]))
    for _ in range(6):
        v = registry.draw_value(rng, o)
        if v != o['default'] and v != 'ignore':
            return v
    return v


def draw_cfg(rng, ws_density):
    opts = mod_options()
    d = {}
    for o in rng.sample(opts, rng.randint(1, 5)):
        d[o['name']] = mod_value(rng, o)
    if rng.random() < 0.5:
        # the brace / paren / int options are the ones with pre-conditions worth attacking: weight them
        for n in rng.sample(BRACE_OPTS + PAREN_OPTS + ('mod_full_brace_if_chain', 'mod_infinite_loop', 'mod_remove_extra_semicolon',
                                                       'mod_full_paren_if_bool', 'mod_full_brace_nl_block_rem_mlcond'), 2):
            o = registry.by_name()[n]
            d[n] = mod_value(rng, o)
    r = rng.random()
    if r < 0.12:        # the chain / multi-line-condition family (their pre-conditions interact)
        d.update({'mod_full_brace_if_chain': rng.choice(['1', '2', '3']), 'mod_full_brace_nl_block_rem_mlcond': rng.choice(['true', 'false']),
                  'mod_full_brace_if': rng.choice(['remove', 'add', 'ignore']), 'mod_full_brace_nl': rng.choice(['0', '2'])})
    elif r < 0.24:      # loop rewriting together with brace options
        d.update({'mod_infinite_loop': str(rng.randint(1, 5)), 'mod_full_brace_while': rng.choice(['ignore', 'add', 'remove']),
                  'mod_full_brace_do': rng.choice(['ignore', 'add', 'remove'])})
    if ws_density:
        d.update(registry.random_cfg(rng, ('WS',), ws_density))
    family.apply_exclusions(d, _EX)
    registry.fix_nl_max(d)
    return d


def make_strategy():
    from hypothesis import strategies as st
    return st.tuples(gen_c.c_program(max_depth=4, max_funcs=2, pp_split=True), st.integers(0, 2 ** 32 - 1), st.integers(0, 2 ** 32 - 1))


def to_case(v):
    toks, lseed, cseed = v
    cseed = family.cfg_seed(cseed)
    rng = random.Random(lseed)
    src, r = layout.render(toks, rng, 'C', dict(p_cmt=rng.choice([0.0, 0.05, 0.2]), p_nl_slot=rng.choice([0.05, 0.3])))
    crng = random.Random(cseed)
    cfgd = draw_cfg(crng, (0, 0, 0.02, 0.06)[cseed % 4])
    return family.Case(src.encode('utf-8'), 'C', cfgd, {'kind': 'generated', 'layout_seed': lseed, 'cfg_seed': cseed})


def import_shapes():
    """(name, language, source): blocks of 2..4 import / using lines over component names that are prefixes of one another"""
    import itertools
    leafs = ['List', 'ListIterator', 'Map', 'MapEntry', 'Lis', 'list']
    pk = ['java.util', 'java.uti', 'java.util.concurrent']
    names = [p_ + '.' + l for p_ in pk[:1] for l in leafs] + [pk[1] + '.List', pk[2] + '.Map', 'java.util']
    blocks = []
    for k in (2, 3):
        for combo in itertools.combinations(range(len(names)), k):
            blocks.append([names[i] for i in combo])
    blocks += [[names[0], names[1], names[0]], [names[1], names[0], names[1], names[2]], list(reversed(names))]
    out = []
    for bi, b in enumerate(blocks):
        for order in (b, list(reversed(b))) if b != list(reversed(b)) else (b,):
            tag = '%d%s' % (bi, 'r' if order is not b else '')
            out.append(('imp-java-' + tag, 'JAVA', ''.join('import %s;\n' % n for n in order) + '\nclass A { int x; }\n'))
            out.append(('imp-d-' + tag, 'D', ''.join('import %s;\n' % n.replace('java', 'std') for n in order) + '\nint x;\n'))
            out.append(('imp-cs-' + tag, 'CS', ''.join('using %s;\n' % n.replace('java', 'System') for n in order)
                        + '\nnamespace N { class A { int x; } }\n'))
    return out


def main(ctx):
    quick = ctx.tier == 'quick'
    rng = random.Random(core.subseed(ctx.useed, 'c04'))
    _EX.update(family.exclusions(ctx))
    family.set_tier(ctx)
    ctx.rule = ('case = (source, language, config with >= 1 mod_ option); judged when uncrustify exits 0; non-trivial = the code token '
                'stream of the output differs from the input (an option fired); distinct by sha256(source, language, config)')
    ctx.assumptions = ['token kinds and directions per option are taken from the option documentation (table in checks/c04.py plan())',
                       'mod_sort_oc_properties is outside the domain']
    core.replay_regress(ctx, replay)
    files = corpus.files()
    cases = []
    ncfg = 3 if quick else 30
    for rel, lang in files:
        src = corpus.read(rel)
        for i in range(ncfg):
            r = random.Random(core.subseed(ctx.useed, 'corpus', rel, i))
            cases.append(family.Case(src, lang, draw_cfg(r, (0, 0.02, 0.05)[i % 3]), {'kind': 'corpus', 'file': rel, 'cfg_index': i}))
    # single-option sweep
    slice_ = []
    for lang in ('C', 'CPP', 'CS', 'D', 'JAVA', 'OC', 'PAWN', 'VALA', 'ECMA'):
        fs = [f for f in files if f[1] == lang and 300 < os.path.getsize(os.path.join(corpus.input_root(), f[0])) < 30000]
        slice_ += rng.sample(fs, min(len(fs), 4 if quick else 25))
    for o in mod_options():
        vals = registry.values(o) if o['type'] != 'num' or o['max'] is None or o['max'] <= 8 else ['1', '3']
        for v in vals:
            if v == o['default']:
                continue
            for rel, lang in slice_:
                cases.append(family.Case(corpus.read(rel), lang, {o['name']: v}, {'kind': 'sweep', 'file': rel}))
    # enumerated brace shapes (single-line and multi-line conditions) x brace options incl. the multi-line-condition guard
    bcfgs = [{'mod_full_brace_if': 'remove', 'mod_full_brace_for': 'remove', 'mod_full_brace_while': 'remove'},
             {'mod_full_brace_if': 'add', 'mod_full_brace_for': 'add', 'mod_full_brace_while': 'add'},
             {'mod_full_brace_if_chain': '1'}, {'mod_full_brace_if_chain': '1', 'mod_full_brace_nl_block_rem_mlcond': 'true'},
             {'mod_full_brace_if': 'remove', 'mod_full_brace_for': 'remove', 'mod_full_brace_while': 'remove', 'mod_full_brace_nl_block_rem_mlcond': 'true'},
             {'mod_full_brace_if_chain': '3', 'mod_full_brace_nl_block_rem_mlcond': 'true'}, {'mod_full_brace_if_chain': '2'}]
    nshape = 0
    import itertools
    for name, src in itertools.chain(gen_c.brace_shapes(2 if quick else 3), gen_c.brace_shapes_ml(2), gen_c.brace_shapes_cmt(2)):
        nshape += 1
        for bc in bcfgs:
            cases.append(family.Case(src.encode(), 'C', bc, {'kind': 'brace-shape', 'file': 'shape:' + name}))
    ctx.extra['brace_shapes'] = nshape
    # enumerated boolean-expression shapes x the options that insert / remove parentheses
    for name, src in gen_c.paren_shapes():
        for pc_ in ({'mod_full_paren_if_bool': 'true'}, {'mod_full_paren_assign_bool': 'true'}, {'mod_full_paren_return_bool': 'true'},
                    {'mod_paren_on_return': 'add'}, {'mod_paren_on_return': 'remove'}):
            cases.append(family.Case(src.encode(), 'C', dict(pc_), {'kind': 'paren-shape', 'file': 'shape:' + name}))
    # enumerated conditional groups x the options that append a comment to #else / #endif, in the languages with both comment styles
    for name, src in gen_c.ifdef_shapes():
        for ic in ({'mod_add_long_ifdef_endif_comment': '1'}, {'mod_add_long_ifdef_else_comment': '1'},
                   {'mod_add_long_ifdef_endif_comment': '3', 'mod_add_long_ifdef_else_comment': '3'}):
            for lang in ('C', 'CPP'):
                cases.append(family.Case(src.encode(), lang, dict(ic), {'kind': 'ifdef-shape', 'file': 'shape:' + name}))
    # enumerated import / using blocks x the sort options: names that are prefixes of their neighbours, exact duplicates, names that
    # differ in the package part only - every line of the input must survive sorting (duplicates may go when de-duplication is on)
    nimp = 0
    for name, lang, src in import_shapes():
        for sc in ({}, {'mod_sort_incl_import_grouping_enabled': 'true'},
                   {'mod_sort_incl_import_grouping_enabled': 'true', 'mod_sort_incl_import_ignore_extension': 'true'},
                   {'mod_sort_case_sensitive': 'true'}, {'mod_sort_incl_import_prioritize_filename': 'true'}):
            cd = dict(sc)
            cd['mod_sort_using' if lang in ('CS', 'VALA') else 'mod_sort_import'] = 'true'
            cases.append(family.Case(src.encode(), lang, cd, {'kind': 'import-shape', 'file': 'shape:' + name}))
            nimp += 1
    ctx.extra['import_shape_cases'] = nimp
    raw = family.explore(ctx, judge, cases)
    raw += family.hyp_explore(ctx, judge, make_strategy, to_case, shards=16, examples=(250 if quick else 5000))
    family.triage(ctx, judge, raw)
    fired = sum(v for k, v in ctx.hist.items() if k == 'fired')
    if fired < 200:
        ctx.infra_errors.append('generator health: only %d cases in which a mod_ option fired' % fired)
