"""C19  Spacing options mean what they say at the places they are reported to govern.

Domain   corpus (all languages), Hypothesis-generated C and C++ programs  x  (a) each sp_ add/remove/force option at each of its four
         values with all others default - exhaustive over options x values, over a per-language corpus slice - and (b) random joint
         assignments of ignore/add/remove/force to all of them, over the whole corpus.  Alignment and width splitting stay off
         (defaults; code_width=0), indent_with_tabs=0 so that columns are byte offsets, the Qt-macro override is off (it is a second,
         documented source of values).
Oracle   every spacing decision of space_text() is recorded by the UNCRUSTIFY_VERIF hook as (token positions, last rule logged,
         value returned, forced flag).  For a decision whose rule name is exactly the name of a registered add/remove/force option
         R with configured value v:
           A (attribution)  value returned == v, or v|add when the forced-space flag is set, or one of the promotions written in
                            the option documentation / code comments (sp_case_label |add; sp_before_ellipsis remove->force after a number, sp_return remove->force ("The value REMOVE will be overridden with FORCE");
                            number)
           B (behaviour)    the two tokens are located in the real output (by the column the chunk list carries, verified against
                            the output bytes); if they are on one line: force -> exactly one blank, add -> at least one,
                            remove -> none unless the independent lexer re-lexes the concatenation differently (or R is a
                            promotion), ignore -> blank present iff present in the input (tokens adjacent on one input line).
Not asserted: pairs involving comments, line ends, virtual braces, aligned tokens, rules that are not option names.
"""
import collections
import os
import random
import re

from vf import core, corpus, family, gen_c, gen_cpp, layout, registry, run, tokrel

BUILDS = ('fast',)
LEVEL = 'exploration'
IARF = {'ignore': 0, 'add': 1, 'remove': 2, 'force': 3}
NAME = {v: k for k, v in IARF.items()}
BASE = {'indent_with_tabs': '0', 'code_width': '0', 'use_options_overriding_for_qt_macros': 'false'}
ADD_PROMOTED = {'sp_case_label', 'sp_macro', 'sp_macro_func'}   # sp_macro*: "Macro stuff can only return IGNORE, ADD, or FORCE";                    # log_rule("sp_case_label"); return options::sp_case_label() | IARF_ADD
REMOVE_TO_FORCE = {'sp_before_ellipsis', 'sp_return'}            # "The value REMOVE will be overridden with FORCE" (number before '...')
# rules whose documented meaning is not the plain 0/1 gap of the value (they defer to an original-spacing or number option)
SKIP_BEHAVIOUR = {'sp_before_nl_cont', 'sp_before_tr_emb_cmt', 'sp_num_before_tr_cmt', 'sp_num_before_tr_emb_cmt',
                  'sp_before_emb_cmt', 'sp_after_emb_cmt', 'sp_inside_braces_oc_dict'}

_REG = {}


def iarf_opts():
    if not _REG:
        for o in registry.load():
            if registry.is_iarf(o) and o['name'].startswith('sp_'):
                _REG[o['name']] = o
    return _REG


def judge(case):
    reg = iarf_opts()
    cfgd = dict(BASE)
    cfgd.update(case.cfgd)
    r, d = run.fmt(case.src, case.lang, registry.cfg_text(cfgd), dump=True)
    if r.timeout:
        return {'inconclusive': True}, []
    if not r.ok:
        return {'counts': ['refused'], 'classes': ['refused:' + case.lang]}, []
    if b'\x00' in r.out[:2000]:
        return {'counts': ['skipped_utf16']}, []
    pre = tokrel.parse_dump(d.get('preout'))
    sp = d.get('space') or b''
    # output line of every chunk of the written list
    pos = {}
    line = 1
    for c in pre:
        # (a virtual brace has no text and carries the original position of the chunk in front of it: the real chunk keeps the key, so a
        # decision recorded for 'virtual brace, next chunk' is measured from the real chunk in front of the brace)
        if c.text or (c.line, c.col) not in pos:
            pos[(c.line, c.col)] = (line, c)
        if c.type in tokrel.NL_TYPES:
            line += c.nl
        elif '\n' in c.text:
            line += c.text.count('\n')
    out_lines = r.out.split(b'\n')
    src_lines = case.src.split(b'\n')
    fails = []
    seen = set()
    exercised = set()
    counts = collections.Counter()
    import json as _json
    qt_extents = qt_macro_extents(src_lines) if cfgd.get('use_options_overriding_for_qt_macros') == 'true' else {}
    for ln in sp.split(b'\n'):
        if not ln:
            continue
        try:
            l1, c1, l2, c2, rule, av, min_sp, forced, t1, t2 = _json.loads(ln)
        except ValueError:
            continue
        if rule == 'sp_num_before_tr_cmt' and tokrel.is_cmt(t2):
            rule = 'sp_before_tr_cmt'       # (the count option is logged last; the value handed on is sp_before_tr_cmt's, min_sp the count)
        if rule not in reg:
            continue
        if any(a_ <= c1 <= b_ for a_, b_ in qt_extents.get(l1, ())):
            counts['inside_qt_macro'] += 1      # (documented: from the word SIGNAL / SLOT to the ')' of its argument list the override governs)
            continue
        v = cfgd.get(rule, reg[rule]['default'])
        vi = IARF[v]
        counts['attributed'] += 1
        nondefault = rule in case.cfgd
        # ---- A: attribution
        ok = av == vi or (forced and av == (vi | 1)) or (rule in ADD_PROMOTED and (vi != 0 or rule == 'sp_case_label') and av == (vi | 1)) or \
            (rule in REMOVE_TO_FORCE and vi == 2 and av == 3)
        if not ok and vi == 2:
            # `remove` may be weakened where the two tokens written without a blank would lex differently ('<' + '::' -> '<:')
            pa, pb = pos.get((l1, c1)), pos.get((l2, c2))
            if pa and pb and pa[1].text == '<' and pb[1].text.startswith(':'):
                ok = True       # "if we're not supporting digraphs, then we shouldn't create them" ('<' + '::' is '<:' ':' before C++11)
            elif pa and pb and pa[1].text and pb[1].text and layout.needs_sep(pa[1].text, pb[1].text, 'CPP' if case.lang == 'OC+' else
                                                                         (case.lang if case.lang in corpus.CFAMILY else 'CPP')):
                ok = True
        if not ok:
            key = ('A', rule, v, av)
            if key not in seen:
                seen.add(key)
                fails.append(('attribution', {'class': 'value-returned-differs', 'at': [rule, v], 'got': [NAME.get(av, str(av))], 'index': l1,
                                              'in': ['%s=%s forced=%s' % (rule, v, forced)], 'out': ['%s between %s and %s' % (NAME.get(av, av), t1, t2)],
                                              'first_in': rule, 'first_out': NAME.get(av, str(av))}))
            continue
        # ---- B: behaviour, measured in the output bytes
        if rule == 'sp_before_nl_cont' and t2 == 'NL_CONT' and not tokrel.is_cmt(t1) and cfgd.get('align_nl_cont', '0') == '0':
            # the blanks between the last token of a continued line and its backslash
            a = pos.get((l1, c1))
            if a is None or not a[1].text or a[0] - 1 >= len(out_lines):
                continue
            text = out_lines[a[0] - 1].decode('utf-8', 'replace').rstrip('\r')
            ia = a[1].column - 1
            ta = a[1].text
            if '\t' in text[:ia] or text[ia:ia + len(ta)] != ta:
                counts['unlocatable'] += 1
                continue
            m = re.match(r'^( *)\\$', text[ia + len(ta):])
            if not m:
                counts['unlocatable'] += 1
                continue
            gap = m.group(1)
            counts['measured'] += 1
            if nondefault:
                exercised.add('%s=%s' % (rule, v))
            bad = None
            if av == 3 and len(gap) != 1:
                bad = 'force: %d blanks' % len(gap)
            elif av == 1 and len(gap) < 1:
                bad = 'add: no blank'
            elif av == 2 and len(gap) != 0:
                bad = 'remove: %d blanks' % len(gap)
            elif av == 0 and l1 == l2 and l1 - 1 < len(src_lines) and src_lines[l1 - 1].rstrip(b'\r').endswith(b'\\'):
                # (only for a continuation that exists in the input: newline passes also insert new backslash-newlines)
                had = src_lines[l1 - 1].rstrip(b'\r')[:-1].endswith((b' ', b'\t'))
                if (len(gap) > 0) != bool(had):
                    bad = 'ignore: input %s a blank, output has %d' % ('had' if had else 'had no', len(gap))
            if bad:
                key = ('B', rule, v, bad.split(':')[0])
                if key not in seen:
                    seen.add(key)
                    fails.append(('behaviour', {'class': 'gap-' + bad.split(':')[0], 'at': [rule, v], 'got': [bad], 'index': a[0],
                                                'in': ['%s=%s (returned %s)' % (rule, v, NAME.get(av, av))], 'out': [repr(text[max(0, ia - 10):])],
                                                'first_in': rule, 'first_out': bad}))
            continue
        # (pairs next to comments are not measured - except the gap in front of a trailing comment when sp_before_tr_cmt governs it)
        tr_cmt = rule == 'sp_before_tr_cmt' and tokrel.is_cmt(t2) and not tokrel.is_cmt(t1) and t1 not in ('NEWLINE', 'NL_CONT')
        if rule in SKIP_BEHAVIOUR or tokrel.is_cmt(t1) or (tokrel.is_cmt(t2) and not tr_cmt) or t2 in ('NEWLINE', 'NL_CONT') or t1 in ('NEWLINE', 'NL_CONT'):
            continue
        a = pos.get((l1, c1))
        b = pos.get((l2, c2))
        if a is None or b is None or a[0] != b[0] or not a[1].text or not b[1].text:
            counts['not_on_one_output_line'] += 1
            continue
        ca, cb = a[1], b[1]
        if cb.type.startswith('VBRACE') or t2.startswith('VBRACE') or (ca.type.startswith('VBRACE')):
            continue
        if t1.startswith('VBRACE') and not (t1 == 'VBRACE_OPEN' and rule == 'sp_after_sparen' and ca.type == 'SPAREN_CLOSE' and
                                            cfgd.get('sp_skip_vbrace_tokens', 'false') != 'true'):
            # a decision recorded behind a virtual brace is measured for one shape only: the brace-less body behind the ')' of
            # if / for / while (the virtual brace stands for the body's start, the real token in front of it is the ')');
            # elsewhere a zero-width token with gaps on both sides has no single gap to compare the option with
            continue
        if a[0] - 1 >= len(out_lines):
            counts['unlocatable'] += 1
            continue
        text = out_lines[a[0] - 1].decode('utf-8', 'replace')
        ta, tb = ca.text, cb.text
        ia, ib = ca.column - 1, cb.column - 1
        if '\t' in text[:ib] or text[ia:ia + len(ta)] != ta or text[ib:ib + len(tb)] != tb or ib < ia + len(ta):
            counts['unlocatable'] += 1
            continue
        gap = text[ia + len(ta):ib]
        if gap.strip(' ') != '':
            counts['unlocatable'] += 1       # something else sits between the two chunks (an empty-text chunk, a comment)
            continue
        counts['measured'] += 1
        if nondefault:
            exercised.add('%s=%s' % (rule, v))
        eff = av                                  # the value the decision function handed to space_text()
        bad = None
        if eff == 3 and len(gap) != max(1, min_sp):
            bad = 'force: %d blanks' % len(gap)
        elif eff == 1 and len(gap) < 1:
            bad = 'add: no blank'
        elif eff == 2 and len(gap) != 0:
            bad = 'remove: %d blanks' % len(gap)
        elif eff == 0 and l1 == l2:
            # was there a blank in front of the second token in the input?  Read from the input text itself (the character in front of
            # the token's original column, tabs expanded), not from the end column the tool recorded for the first token
            had = None
            if 0 < l2 <= len(src_lines):
                sl = src_lines[l2 - 1].decode('utf-8', 'replace').rstrip('\r').expandtabs(8)
                if 2 <= c2 <= len(sl) and sl[c2 - 1:c2 - 1 + len(tb)] == tb:
                    had = sl[c2 - 2] == ' '
            if had is None:
                had = c2 > ca.col_end if ca.col_end else None
            if had is not None and (len(gap) > 0) != bool(had):
                bad = 'ignore: input %s a blank, output has %d' % ('had' if had else 'had no', len(gap))
        if bad and eff == 2 and case.lang in corpus.CFAMILY and layout.needs_sep(ta, tb, case.lang if case.lang != 'OC+' else 'CPP'):
            bad = None        # the two tokens written without a blank would lex differently
        if bad and eff == 2 and case.lang not in corpus.CFAMILY and re.match(r'[\w@$]', ta[-1:]) and re.match(r'[\w@$]', tb[:1]):
            bad = None
        if bad:
            key = ('B', rule, v, bad.split(':')[0])
            if key not in seen:
                seen.add(key)
                fails.append(('behaviour', {'class': 'gap-' + bad.split(':')[0], 'at': [rule, v], 'got': [bad], 'index': a[0],
                                            'in': ['%s=%s (returned %s, forced=%s)' % (rule, v, NAME.get(av, av), forced)],
                                            'out': [repr(text[max(0, ia - 10):ib + len(tb) + 10])], 'first_in': rule, 'first_out': bad}))
    info = {'nontrivial': bool(exercised), 'counts': list(counts.elements()) if False else [],
            'classes': ['lang:' + case.lang, 'origin:' + (case.origin or {}).get('kind', '?')] + sorted(exercised),
            'sample': {'origin': case.origin, 'lang': case.lang, 'cfg_size': len(case.cfgd), 'attributed': counts['attributed'],
                       'measured': counts['measured'], 'exercised': sorted(exercised)[:12]}}
    info['n'] = dict(counts)
    return info, fails


replay = family.replay_case(judge)
_EX = {}


def joint_cfg(rng):
    d = {}
    for n, o in iarf_opts().items():
        d[n] = rng.choice(['ignore', 'add', 'remove', 'force'])
    for o in registry.load():          # boolean spacing switches
        if o['type'] == 'bool' and o['name'].startswith('sp_') and rng.random() < 0.3:
            d[o['name']] = rng.choice(['true', 'false'])
    family.apply_exclusions(d, _EX)
    return d


def make_strategy():
    from hypothesis import strategies as st
    from vf import gen_java
    return st.tuples(st.one_of(gen_c.c_program(max_depth=3, max_funcs=2).map(lambda t: ('C', t)), gen_cpp.cpp_program(max_snippets=4).map(lambda t: ('CPP', t)),
                               gen_java.java_program(max_snippets=3).map(lambda t: ('JAVA', t))),
                     st.integers(0, 2 ** 32 - 1), st.integers(0, 2 ** 32 - 1))


def to_case(v):
    (lang, toks), lseed, cseed = v
    cseed = family.cfg_seed(cseed)
    rng = random.Random(lseed)
    src, r = layout.render(toks, rng, lang, dict(p_cmt=0.05, p_tab=0.0, p_multi=0.2, p_nl_slot=0.05))
    return family.Case(src.encode('utf-8'), lang, joint_cfg(random.Random(cseed)), {'kind': 'generated', 'layout_seed': lseed, 'cfg_seed': cseed})


QT_OPTS = ['sp_inside_fparen', 'sp_inside_fparens', 'sp_paren_paren', 'sp_before_comma', 'sp_after_comma', 'sp_before_byref',
           'sp_before_unnamed_byref', 'sp_after_type', 'sp_before_ptr_star', 'sp_before_unnamed_ptr_star', 'sp_inside_angle']


def qt_macro_extents(src_lines):
    """{line: [(first column of the word SIGNAL / SLOT, column of the ')' that closes its argument list)]} read from the input text
    (1-based; a macro use is the word followed by '(' - single-line uses only, which is what qt_programs() writes)"""
    out = {}
    for i, ln in enumerate(src_lines):
        t = ln.decode('latin-1')
        for m in re.finditer(r'\b(SIGNAL|SLOT)\s*\(', t):
            depth, j = 0, m.end() - 1
            while j < len(t):
                if t[j] == '(':
                    depth += 1
                elif t[j] == ')':
                    depth -= 1
                    if depth == 0:
                        break
                j += 1
            out.setdefault(i + 1, []).append((m.start() + 1, j + 1))
    return out


def qt_programs():
    heads = {'none': '', 'undef': '#undef SLOT\n', 'enum': 'enum Kind { PLAIN,SLOT,OTHER };\n', 'var': 'extern int SIGNAL;\n',
             'undef2': '#undef SIGNAL\n#undef SLOT\n'}
    conn = 'connect(x, SIGNAL(foo(int,int)), y, SLOT(bar(const QString &,int *)));'
    bodies = {'flat': '   %s\n' % conn,
              'nested': '   if (a)\n   {\n      %s\n   }\n' % conn,
              'twice': '   %s\n   g(a,b);\n   {\n      %s\n   }\n' % (conn, conn),
              'arg': '   h(1,connect(x, SIGNAL(foo(int)), y, SLOT(bar())),2);\n'}
    tail = ('   apply( a,b );\n   v< int > w;\n}\nvoid later(int a,int b,char *p,T &r);\nvoid other( void );\n'
            'int k((1),(2));\nstd::map< int,char > m;\n')
    out = []
    for hn, h in heads.items():
        for bn, b in bodies.items():
            out.append(('qt-%s-%s' % (hn, bn), h + 'void f(int a,int b)\n{\n   g(a,b);\n' + b + tail))
    return out


def main(ctx):
    quick = ctx.tier == 'quick'
    rng = random.Random(core.subseed(ctx.useed, 'c19'))
    _EX.update(family.exclusions(ctx))
    family.set_tier(ctx)
    reg = iarf_opts()
    ctx.rule = ('case = (source, language, assignment of ignore/add/remove/force to sp_ options); every recorded decision attributed to an option '
                'is an evaluation of A, every located token pair one of B; non-trivial = a decision attributed to an option set to a non-default '
                'value was measured in the output; distinct (option=value) pairs exercised are listed')
    ctx.assumptions = ['the hook records the last rule logged through log_rule() and the value handed to space_text()',
                       'columns of the written chunk list are verified against the output bytes before a gap is measured']
    core.replay_regress(ctx, replay)
    files = corpus.files()
    cases = []
    # (a) single sweep: every option x 4 values over a slice
    slice_ = []
    for lang in ('C', 'CPP', 'CS', 'D', 'JAVA', 'OC', 'PAWN', 'VALA', 'ECMA'):
        fs = [f for f in files if f[1] == lang and 500 < os.path.getsize(os.path.join(corpus.input_root(), f[0])) < 25000]
        slice_ += rng.sample(fs, min(len(fs), 1 if quick else 6))
    srcs = {rel: corpus.read(rel) for rel, _l in slice_}
    for n in sorted(reg):
        for v in ('ignore', 'add', 'remove', 'force'):
            for rel, lang in slice_:
                cases.append(family.Case(srcs[rel], lang, {n: v}, {'kind': 'sweep', 'file': rel}))
    ctx.exhaustive = True
    ctx.extra['sweep'] = {'options': len(reg), 'values': 4, 'slice_files': len(slice_)}
    # (b) joint assignments over the corpus
    nj = 3 if quick else 40
    for j in range(nj):
        cd = joint_cfg(random.Random(core.subseed(ctx.useed, 'joint', j)))
        for rel, lang in files:
            cases.append(family.Case(corpus.read(rel), lang, cd, {'kind': 'corpus-joint', 'file': rel, 'j': j}))
    # (c) Qt programs: the words SIGNAL / SLOT switch eleven options to 'remove' between the macro name and the end of its argument
    #     (use_options_overriding_for_qt_macros, default true); outside the macro the configured values govern - also after a bare
    #     SIGNAL / SLOT word, between two macros, and behind a macro at another nesting level
    nqt = 0
    for name, src in qt_programs():
        for o in QT_OPTS:
            for v in ('force', 'add', 'remove'):
                cases.append(family.Case(src.encode(), 'CPP', {o: v, 'use_options_overriding_for_qt_macros': 'true'}, {'kind': 'qt-shape', 'file': 'shape:' + name}))
                nqt += 1
        cases.append(family.Case(src.encode(), 'CPP', dict({o: 'force' for o in QT_OPTS}, use_options_overriding_for_qt_macros='true'), {'kind': 'qt-shape', 'file': 'shape:' + name}))
    ctx.extra['qt_shape_cases'] = nqt
    raw = family.explore(ctx, judge, cases)
    raw += family.hyp_explore(ctx, judge, make_strategy, to_case, shards=16, examples=(60 if quick else 2000))
    family.triage(ctx, judge, raw, minimise_src=6000)
    ex = sorted(k for k in ctx.hist if '=' in k and k.startswith('sp_'))
    ctx.extra['option_value_pairs_exercised'] = len(ex)
    ctx.extra['options_exercised'] = len(set(k.split('=')[0] for k in ex))
    ctx.extra['options_never_attributed'] = sorted(set(reg) - set(k.split('=')[0] for k in ex))[:80]
